/* vx core: line parsing, memory types, value formatting, guarded arenas.  Included by vx.c only. */
#include <mpi.h>
#include <pnetcdf.h>
#include <stdio.h>
#include <stdlib.h>
#include <string.h>
#include <unistd.h>
#include <signal.h>
#include <errno.h>
#include <fcntl.h>
#include <dirent.h>
#include <sys/stat.h>
#include "board.h"
#include "shim.h"

#define MAXTOK 256
#define MAXDIMS 40
static int g_lockstep = 0;    /* current op is executed by all ranks in lock-step */
#define SENT 0xA5

static int g_rank, g_np;
static FILE *g_log;
static char g_workdir[512], g_outdir[512];
static int g_case = -1, g_line = 0;
static char g_casename[128];

/* ---------- tokens ---------- */
static char *tok[MAXTOK]; static int ntok;

static const char *arg(const char *k)
{
    int i; size_t n = strlen(k);
    for (i = 2; i < ntok; i++) if (!strncmp(tok[i], k, n) && tok[i][n] == '=') return tok[i] + n + 1;
    return NULL;
}
static long long argi(const char *k, long long d) { const char *v = arg(k); return v ? strtoll(v, NULL, 0) : d; }
static int arglist(const char *k, long long *out, int max)
{
    const char *v = arg(k); int n = 0; char *e;
    if (!v || !*v) return v ? 0 : -1;
    while (*v && n < max) { out[n++] = strtoll(v, &e, 0); if (*e == ',') e++; if (e == v) break; v = e; }
    return n;
}
static int arglist_off(const char *k, MPI_Offset *out, int max)
{
    long long t[MAXDIMS * 4]; int i, n = arglist(k, t, max);
    for (i = 0; i < n; i++) out[i] = (MPI_Offset)t[i];
    return n;
}
/* names: plain token, or x:<hex> for arbitrary bytes; returns malloc'ed string */
static char *decode_name(const char *v)
{
    char *s; size_t i, n;
    if (!v) return NULL;
    if (strncmp(v, "x:", 2)) return strdup(v);
    v += 2; n = strlen(v) / 2; s = malloc(n + 1);
    for (i = 0; i < n; i++) { unsigned b; sscanf(v + 2 * i, "%2x", &b); s[i] = (char)b; }
    s[n] = 0; return s;
}
static void hexname(FILE *f, const char *s) { for (; *s; s++) fprintf(f, "%02x", (unsigned char)*s); }
static void hexbytes(FILE *f, const unsigned char *p, size_t n) { size_t i; for (i = 0; i < n; i++) fprintf(f, "%02x", p[i]); }

/* ---------- memory types ---------- */
enum { M_TEXT, M_SCHAR, M_UCHAR, M_SHORT, M_INT, M_LONG, M_FLOAT, M_DOUBLE, M_USHORT, M_UINT, M_LONGLONG, M_ULONGLONG, M_N };
static const char *mt_name[M_N] = { "text", "schar", "uchar", "short", "int", "long", "float", "double", "ushort", "uint", "longlong", "ulonglong" };
static const int mt_size[M_N] = { 1, 1, 1, 2, 4, sizeof(long), 4, 8, 2, 4, 8, 8 };
static MPI_Datatype mt_mpi(int m)
{
    switch (m) {
        case M_TEXT: return MPI_CHAR; case M_SCHAR: return MPI_SIGNED_CHAR; case M_UCHAR: return MPI_UNSIGNED_CHAR;
        case M_SHORT: return MPI_SHORT; case M_INT: return MPI_INT; case M_LONG: return MPI_LONG; case M_FLOAT: return MPI_FLOAT;
        case M_DOUBLE: return MPI_DOUBLE; case M_USHORT: return MPI_UNSIGNED_SHORT; case M_UINT: return MPI_UNSIGNED;
        case M_LONGLONG: return MPI_LONG_LONG_INT; case M_ULONGLONG: return MPI_UNSIGNED_LONG_LONG;
    }
    return MPI_DATATYPE_NULL;
}
static int mt_parse(const char *s)
{
    int i; if (!s) return M_INT;
    for (i = 0; i < M_N; i++) if (!strcmp(s, mt_name[i])) return i;
    fprintf(stderr, "vx: bad mem type %s\n", s); exit(9);
}
/* natural memory type of an external type */
static int mt_of_xtype(int x)
{
    switch (x) { case NC_BYTE: return M_SCHAR; case NC_CHAR: return M_TEXT; case NC_SHORT: return M_SHORT; case NC_INT: return M_INT;
        case NC_FLOAT: return M_FLOAT; case NC_DOUBLE: return M_DOUBLE; case NC_UBYTE: return M_UCHAR; case NC_USHORT: return M_USHORT;
        case NC_UINT: return M_UINT; case NC_INT64: return M_LONGLONG; case NC_UINT64: return M_ULONGLONG; }
    return M_INT;
}
static int xt_parse(const char *s)
{
    static const char *n[] = { "", "byte", "char", "short", "int", "float", "double", "ubyte", "ushort", "uint", "int64", "uint64" };
    int i; if (!s) return NC_INT;
    for (i = 1; i <= 11; i++) if (!strcmp(s, n[i])) return i;
    return (int)strtol(s, NULL, 0);   /* raw (possibly illegal) type number */
}

static void mt_store_ll(int m, void *p, long long v, unsigned long long u, double d, int isflt)
{
    switch (m) {
        case M_TEXT: *(char *)p = (char)(isflt ? (long long)d : v); break;
        case M_SCHAR: *(signed char *)p = (signed char)(isflt ? (long long)d : v); break;
        case M_UCHAR: *(unsigned char *)p = (unsigned char)(isflt ? (long long)d : v); break;
        case M_SHORT: *(short *)p = (short)(isflt ? (long long)d : v); break;
        case M_INT: *(int *)p = (int)(isflt ? (long long)d : v); break;
        case M_LONG: *(long *)p = (long)(isflt ? (long long)d : v); break;
        case M_FLOAT: *(float *)p = isflt ? (float)d : (float)v; break;
        case M_DOUBLE: *(double *)p = isflt ? d : (double)v; break;
        case M_USHORT: *(unsigned short *)p = (unsigned short)(isflt ? (long long)d : v); break;
        case M_UINT: *(unsigned *)p = (unsigned)(isflt ? (long long)d : v); break;
        case M_LONGLONG: *(long long *)p = isflt ? (long long)d : v; break;
        case M_ULONGLONG: *(unsigned long long *)p = isflt ? (unsigned long long)d : u; break;
    }
}
/* parse one textual value into memory type m */
static const char *mt_parse_val(int m, const char *s, void *p)
{
    char *e;
    if (m == M_FLOAT || m == M_DOUBLE) {
        double d;
        if (!strncmp(s, "fb:", 3)) { unsigned u = (unsigned)strtoul(s + 3, &e, 16); float f; memcpy(&f, &u, 4); d = f; if (m == M_FLOAT) { memcpy(p, &u, 4); return e; } }
        else if (!strncmp(s, "db:", 3)) { unsigned long long u = strtoull(s + 3, &e, 16); memcpy(&d, &u, 8); if (m == M_DOUBLE) { memcpy(p, &u, 8); return e; } }
        else d = strtod(s, &e);
        mt_store_ll(m, p, 0, 0, d, 1);
    } else if (m == M_ULONGLONG) {
        unsigned long long u = strtoull(s, &e, 0); mt_store_ll(m, p, (long long)u, u, 0, 0);
    } else {
        long long v = strtoll(s, &e, 0); mt_store_ll(m, p, v, (unsigned long long)v, 0, 0);
    }
    return e;
}
static void mt_print(FILE *f, int m, const void *p)
{
    switch (m) {
        case M_TEXT: fprintf(f, "%d", (int)*(const unsigned char *)p); break;
        case M_SCHAR: fprintf(f, "%d", (int)*(const signed char *)p); break;
        case M_UCHAR: fprintf(f, "%d", (int)*(const unsigned char *)p); break;
        case M_SHORT: fprintf(f, "%d", (int)*(const short *)p); break;
        case M_INT: fprintf(f, "%d", *(const int *)p); break;
        case M_LONG: fprintf(f, "%ld", *(const long *)p); break;
        case M_FLOAT: { float x; unsigned u; memcpy(&x, p, 4); memcpy(&u, p, 4); if (x != x) fprintf(f, "nan:%08x", u); else fprintf(f, "%.17g", (double)x); break; }
        case M_DOUBLE: { double x; unsigned long long u; memcpy(&x, p, 8); memcpy(&u, p, 8); if (x != x) fprintf(f, "nan:%016llx", u); else fprintf(f, "%.17g", x); break; }
        case M_USHORT: fprintf(f, "%u", (unsigned)*(const unsigned short *)p); break;
        case M_UINT: fprintf(f, "%u", *(const unsigned *)p); break;
        case M_LONGLONG: fprintf(f, "%lld", *(const long long *)p); break;
        case M_ULONGLONG: fprintf(f, "%llu", *(const unsigned long long *)p); break;
    }
}

/* ---------- guarded buffers ---------- */
typedef struct {
    unsigned char *base;      /* whole arena incl. guards */
    unsigned char *snap;      /* copy taken right before the call (writes) */
    size_t bytes;             /* arena size */
    size_t pre;               /* guard bytes before slot 0 */
    long nslots;              /* element slots between guards */
    long n;                   /* logical elements */
    long *off;                /* slot index of logical element k */
    int mem;
    MPI_Datatype dtype; int dtype_derived; MPI_Offset bufcount;
    int isget;
} arena_t;

#define GUARD 64

static void arena_free(arena_t *a)
{
    if (!a->base) return;
    free(a->base); free(a->snap); free(a->off);
    if (a->dtype_derived && a->dtype != MPI_DATATYPE_NULL) PMPI_Type_free(&a->dtype);
    memset(a, 0, sizeof *a);
}
static void *arena_buf(arena_t *a) { return a->base + a->pre; }

/* build the layout: returns 0 ok */
static int arena_make(arena_t *a, int mem, long n, const char *lay, int ndims, const MPI_Offset *count, const MPI_Offset *imap)
{
    long k, nslots; int sz = mt_size[mem]; MPI_Datatype base = mt_mpi(mem);
    memset(a, 0, sizeof *a);
    a->mem = mem; a->n = n; a->dtype = base; a->bufcount = n; a->dtype_derived = 0;
    a->off = malloc(sizeof(long) * (n > 0 ? n : 1));
    if (imap) {
        long idx[MAXDIMS] = { 0 }, minoff = 0, maxoff = 0; int d;
        for (k = 0; k < n; k++) {
            long o = 0;
            for (d = 0; d < ndims; d++) o += idx[d] * (long)imap[d];
            a->off[k] = o; if (o < minoff) minoff = o; if (o > maxoff) maxoff = o;
            for (d = ndims - 1; d >= 0; d--) { if (++idx[d] < count[d]) break; idx[d] = 0; }
        }
        if (minoff < 0) { for (k = 0; k < n; k++) a->off[k] -= minoff; maxoff -= minoff; }  /* caller gets buf at slot -minoff: not supported -> keep 0-based */
        nslots = maxoff + 1;
    } else if (!lay || !strcmp(lay, "contig") || n == 0) {
        for (k = 0; k < n; k++) a->off[k] = k;
        nslots = n;
    } else if (!strcmp(lay, "cont1")) {
        for (k = 0; k < n; k++) a->off[k] = k;
        nslots = n;
        PMPI_Type_contiguous((int)n, base, &a->dtype); PMPI_Type_commit(&a->dtype); a->dtype_derived = 1; a->bufcount = 1;
    } else if (!strcmp(lay, "cont2")) {
        /* contiguous derived type of K elements, bufcount = n / K > 1 where n allows (element count of the type != bufcount) */
        long K = (n % 2 == 0 && n >= 4) ? 2 : ((n % 3 == 0 && n >= 6) ? 3 : n);
        for (k = 0; k < n; k++) a->off[k] = k;
        nslots = n;
        PMPI_Type_contiguous((int)K, base, &a->dtype); PMPI_Type_commit(&a->dtype); a->dtype_derived = 1; a->bufcount = n / K;
    } else if (!strncmp(lay, "vec:", 4) || !strncmp(lay, "hvec:", 5) || !strncmp(lay, "rsz:", 4)) {
        long B = 1, S = 2, nb; const char *p = strchr(lay, ':') + 1;
        sscanf(p, "%ld:%ld", &B, &S);
        if (B < 1 || n % B) B = 1;
        if (S < B) S = B + 1;
        nb = n / B;
        for (k = 0; k < n; k++) a->off[k] = (k / B) * S + k % B;
        nslots = (nb - 1) * S + B;
        if (lay[0] == 'v') { PMPI_Type_vector((int)nb, (int)B, (int)S, base, &a->dtype); a->bufcount = 1; }
        else if (lay[0] == 'h') { PMPI_Type_create_hvector((int)nb, (int)B, (MPI_Aint)S * sz, base, &a->dtype); a->bufcount = 1; }
        else { MPI_Datatype t; PMPI_Type_contiguous((int)B, base, &t); PMPI_Type_create_resized(t, 0, (MPI_Aint)S * sz, &a->dtype); PMPI_Type_free(&t); a->bufcount = nb; nslots = nb * S; }
        PMPI_Type_commit(&a->dtype); a->dtype_derived = 1;
    } else if (!strcmp(lay, "idx")) {
        int *bl = malloc(sizeof(int) * n), *ds = malloc(sizeof(int) * n);
        for (k = 0; k < n; k++) { bl[k] = 1; ds[k] = (int)(2 * k + (k & 1)); a->off[k] = ds[k]; }
        nslots = a->off[n - 1] + 1;
        PMPI_Type_indexed((int)n, bl, ds, base, &a->dtype); PMPI_Type_commit(&a->dtype); a->dtype_derived = 1; a->bufcount = 1;
        free(bl); free(ds);
    } else if (!strcmp(lay, "struct")) {
        /* MPI_Type_create_struct over one base type: members of block lengths 2, 3, 1, 2, 3, 1 ... with a one-element gap between members */
        int nm = 0, *bl = malloc(sizeof(int) * (n + 1)); MPI_Aint *ds = malloc(sizeof(MPI_Aint) * (n + 1)); MPI_Datatype *ts = malloc(sizeof(MPI_Datatype) * (n + 1));
        long done = 0, pos = 0; static const int pat[3] = { 2, 3, 1 };
        while (done < n) { int b = pat[nm % 3]; if (b > n - done) b = (int)(n - done); bl[nm] = b; ds[nm] = (MPI_Aint)pos * sz; ts[nm] = base;
            for (k = 0; k < b; k++) a->off[done + k] = pos + k;
            done += b; pos += b + 1; nm++; }
        nslots = pos;
        PMPI_Type_create_struct(nm, bl, ds, ts, &a->dtype); PMPI_Type_commit(&a->dtype); a->dtype_derived = 1; a->bufcount = 1;
        free(bl); free(ds); free(ts);
    } else if (!strcmp(lay, "dtnull")) {
        for (k = 0; k < n; k++) a->off[k] = k;
        nslots = n; a->dtype = MPI_DATATYPE_NULL; a->bufcount = 0;
    } else { fprintf(stderr, "vx: bad layout %s\n", lay); exit(9); }
    if (nslots < 1) nslots = 1;
    a->nslots = nslots; a->pre = GUARD;
    a->bytes = GUARD + (size_t)nslots * sz + GUARD;
    a->base = malloc(a->bytes); memset(a->base, SENT, a->bytes);
    /* self-check of the type map against MPI's own packing order */
    if (a->dtype_derived && n > 0 && n < 100000) {
        MPI_Datatype twin = MPI_DATATYPE_NULL; int *ia, *pk, pos = 0; long i;
        /* rebuild with MPI_INT */
        if (!strcmp(lay, "cont1")) PMPI_Type_contiguous((int)n, MPI_INT, &twin);
        else if (!strcmp(lay, "cont2")) PMPI_Type_contiguous((int)(n / a->bufcount), MPI_INT, &twin);
        else if (!strcmp(lay, "idx")) { int *bl = malloc(sizeof(int) * n), *ds = malloc(sizeof(int) * n); for (k = 0; k < n; k++) { bl[k] = 1; ds[k] = (int)(2 * k + (k & 1)); } PMPI_Type_indexed((int)n, bl, ds, MPI_INT, &twin); free(bl); free(ds); }
        else if (!strcmp(lay, "struct")) { int nm = 0, *bl = malloc(sizeof(int) * (n + 1)); MPI_Aint *ds = malloc(sizeof(MPI_Aint) * (n + 1)); MPI_Datatype *ts = malloc(sizeof(MPI_Datatype) * (n + 1)); long done = 0, pos = 0; static const int pat[3] = { 2, 3, 1 };
            while (done < n) { int b = pat[nm % 3]; if (b > n - done) b = (int)(n - done); bl[nm] = b; ds[nm] = (MPI_Aint)pos * 4; ts[nm] = MPI_INT; done += b; pos += b + 1; nm++; }
            PMPI_Type_create_struct(nm, bl, ds, ts, &twin); free(bl); free(ds); free(ts); }
        else { long B = 1, S = 2, nb; sscanf(strchr(lay, ':') + 1, "%ld:%ld", &B, &S); if (B < 1 || n % B) B = 1; if (S < B) S = B + 1; nb = n / B;
            if (lay[0] == 'v') PMPI_Type_vector((int)nb, (int)B, (int)S, MPI_INT, &twin);
            else if (lay[0] == 'h') PMPI_Type_create_hvector((int)nb, (int)B, (MPI_Aint)S * 4, MPI_INT, &twin);
            else { MPI_Datatype t; PMPI_Type_contiguous((int)B, MPI_INT, &t); PMPI_Type_create_resized(t, 0, (MPI_Aint)S * 4, &twin); PMPI_Type_free(&t); } }
        PMPI_Type_commit(&twin);
        ia = malloc(sizeof(int) * (nslots + 1)); pk = malloc(sizeof(int) * n);
        for (i = 0; i < nslots; i++) ia[i] = (int)i;
        PMPI_Pack(ia, (int)a->bufcount, twin, pk, (int)(n * 4), &pos, MPI_COMM_SELF);
        for (k = 0; k < n; k++) if (pk[k] != a->off[k]) { fprintf(stderr, "vx: HARNESS BUG typemap mismatch lay=%s k=%ld\n", lay, k); exit(9); }
        free(ia); free(pk); PMPI_Type_free(&twin);
    }
    return 0;
}
static void arena_fill(arena_t *a, const char *vals, long long tag, long long scale)
{
    long k; int sz = mt_size[a->mem]; unsigned char *b = arena_buf(a);
    const char *p = vals;
    for (k = 0; k < a->n; k++) {
        void *slot = b + a->off[k] * sz;
        if (p && *p) { p = mt_parse_val(a->mem, p, slot); if (*p == ',') p++; }
        else { long long v = ((tag * 17 + k) % 97 + 1) * scale; mt_store_ll(a->mem, slot, v, (unsigned long long)v, 0, 0); }
    }
}
static void arena_snapshot(arena_t *a) { free(a->snap); a->snap = malloc(a->bytes); memcpy(a->snap, a->base, a->bytes); }
static int arena_modified(arena_t *a) { return a->snap ? memcmp(a->snap, a->base, a->bytes) != 0 : 0; }
/* 1 if any byte outside the type map differs from the sentinel */
static int arena_guard_bad(arena_t *a)
{
    size_t i; int sz = mt_size[a->mem]; long k; int bad = 0;
    unsigned char *mask = calloc(1, a->bytes);
    for (k = 0; k < a->n; k++) memset(mask + a->pre + a->off[k] * sz, 1, sz);
    for (i = 0; i < a->bytes; i++) if (!mask[i] && a->base[i] != SENT) { bad = 1; break; }
    free(mask); return bad;
}
static void arena_print_vals(FILE *f, arena_t *a)
{
    long k; int sz = mt_size[a->mem]; unsigned char *b = arena_buf(a);
    fprintf(f, " vals=");
    for (k = 0; k < a->n; k++) { if (k) fputc(',', f); mt_print(f, a->mem, b + a->off[k] * sz); }
}

/* ---------- slots ---------- */
#define NFILES 1100
#define NREQ 128
static int F[NFILES]; static char Fopen[NFILES];
typedef struct { int id; int used; arena_t a; } req_t;
static req_t Q[NREQ];

static int get_ncid(void)
{
    const char *r = arg("ncid");
    if (r) return (int)strtol(r, NULL, 0);
    return F[argi("f", 0)];
}
static void path_of(char *out, size_t n, const char *k)
{
    const char *p = arg(k), *pre = "";
    if (!p) p = "f.nc";
    /* "ufs:name": the MPI-IO file-system prefix in front of the same file (understood by ROMIO, stripped by the library for its POSIX calls) */
    if (!strncmp(p, "ufs:", 4)) { pre = "ufs:"; p += 4; }
    if (p[0] == '/') snprintf(out, n, "%s%s", pre, p);
    else snprintf(out, n, "%s%s/c%d_%s", pre, g_workdir, g_case, p);
}
#define OUT(...) fprintf(g_log, __VA_ARGS__)
