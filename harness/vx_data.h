/* vx data ops: put/get in every form, nonblocking, wait/cancel, buffer inspection */
#include "vx_typed.h"

static int var_info(int ncid, int varid, int *xtype, int *ndims, MPI_Offset *shape, int *isrec)
{
    int dimids[NC_MAX_VAR_DIMS > 64 ? 64 : NC_MAX_VAR_DIMS], i, err, unlim = -1;
    err = ncmpi_inq_var(ncid, varid, NULL, xtype, ndims, NULL, NULL); if (err) return err;
    if (*ndims > MAXDIMS) return NC_EINVAL;
    err = ncmpi_inq_vardimid(ncid, varid, dimids); if (err) return err;
    ncmpi_inq_unlimdim(ncid, &unlim);
    *isrec = 0;
    for (i = 0; i < *ndims; i++) { err = ncmpi_inq_dimlen(ncid, dimids[i], &shape[i]); if (err) return err; if (i == 0 && dimids[i] == unlim) *isrec = 1; }
    return NC_NOERR;
}

static MPI_Datatype xt_mpi(int x)
{
    switch (x) { case NC_BYTE: return MPI_SIGNED_CHAR; case NC_CHAR: return MPI_CHAR; case NC_SHORT: return MPI_SHORT; case NC_INT: return MPI_INT;
        case NC_FLOAT: return MPI_FLOAT; case NC_DOUBLE: return MPI_DOUBLE; case NC_UBYTE: return MPI_UNSIGNED_CHAR; case NC_USHORT: return MPI_UNSIGNED_SHORT;
        case NC_UINT: return MPI_UNSIGNED; case NC_INT64: return MPI_LONG_LONG_INT; case NC_UINT64: return MPI_UNSIGNED_LONG_LONG; }
    return MPI_BYTE;
}

/* file type for vard describing the region (start,count) of the variable, relative to the variable's begin */
static int make_filetype(int ncid, int varid, const MPI_Offset *s, const MPI_Offset *c, MPI_Datatype *ft)
{
    int xt, nd, isrec, i, err; MPI_Offset shape[MAXDIMS], recsize = 0;
    int sizes[MAXDIMS], subs[MAXDIMS], starts[MAXDIMS];
    MPI_Datatype et, one;
    err = var_info(ncid, varid, &xt, &nd, shape, &isrec); if (err) return err;
    et = xt_mpi(xt);
    if (nd == 0) { PMPI_Type_dup(et, ft); PMPI_Type_commit(ft); return 0; }
    for (i = 0; i < nd; i++) { sizes[i] = (int)shape[i]; subs[i] = (int)c[i]; starts[i] = (int)s[i]; }
    if (!isrec) { PMPI_Type_create_subarray(nd, sizes, subs, starts, MPI_ORDER_C, et, ft); PMPI_Type_commit(ft); return 0; }
    ncmpi_inq_recsize(ncid, &recsize);
    if (nd == 1) PMPI_Type_dup(et, &one);
    else PMPI_Type_create_subarray(nd - 1, sizes + 1, subs + 1, starts + 1, MPI_ORDER_C, et, &one);
    {
        MPI_Datatype hv; int bl = 1; MPI_Aint disp = (MPI_Aint)s[0] * recsize;
        PMPI_Type_create_hvector((int)c[0], 1, (MPI_Aint)recsize, one, &hv);
        PMPI_Type_create_hindexed(1, &bl, &disp, hv, ft);
        PMPI_Type_free(&hv); PMPI_Type_free(&one);
    }
    PMPI_Type_commit(ft);
    return 0;
}

static void op_putget(int isget)
{
    int ncid = get_ncid(), varid = (int)argi("v", 0), coll = (int)argi("coll", 0);
    const char *form_s = arg("form"), *nb_s = arg("nb"), *api_s = arg("api"), *lay = arg("lay");
    int form, kind, flex, mem, isvard = 0, rc, slot = (int)argi("req", -1);
    MPI_Offset s[MAXDIMS], c[MAXDIMS], st[MAXDIMS], im[MAXDIMS];
    int ns, nc_, nst, nim, i;
    MPI_Offset *ss[16], *cc[16], sbuf[16][MAXDIMS], cbuf[16][MAXDIMS]; int num = 0;
    long n = 1; call_t A; arena_t a; int reqid = -424242;
    MPI_Datatype ft = MPI_DATATYPE_NULL;

    if (!form_s) form_s = "vara";
    if (!strcmp(form_s, "var")) form = FM_VAR; else if (!strcmp(form_s, "var1")) form = FM_VAR1; else if (!strcmp(form_s, "vara")) form = FM_VARA;
    else if (!strcmp(form_s, "vars")) form = FM_VARS; else if (!strcmp(form_s, "varm")) form = FM_VARM; else if (!strcmp(form_s, "varn")) form = FM_VARN;
    else if (!strcmp(form_s, "vard")) { form = FM_VARA; isvard = 1; } else { fprintf(stderr, "vx: bad form %s\n", form_s); exit(9); }
    if (!nb_s || !strcmp(nb_s, "none")) kind = isget ? K_GET : K_PUT;
    else if (nb_s[0] == 'i') kind = isget ? K_IGET : K_IPUT; else kind = K_BPUT;
    flex = (api_s && !strcmp(api_s, "flex")) || isvard || (lay && strcmp(lay, "contig"));
    mem = mt_parse(arg("mem"));
    ns = arglist_off("s", s, MAXDIMS); nc_ = arglist_off("c", c, MAXDIMS); nst = arglist_off("st", st, MAXDIMS); nim = arglist_off("imap", im, MAXDIMS);
    (void)ns;
    /* number of elements */
    if (form == FM_VAR) {
        int xt, nd, isrec; MPI_Offset shape[MAXDIMS];
        if (var_info(ncid, varid, &xt, &nd, shape, &isrec) == NC_NOERR) for (i = 0; i < nd; i++) n *= (long)shape[i];
    } else if (form == FM_VAR1) n = 1;
    else if (form == FM_VARN) {
        char key[16]; int nd = (int)argi("nd", 1);
        num = (int)argi("n", 0); n = 0;
        for (i = 0; i < num && i < 16; i++) {
            const char *cv; long m = 1; int j;
            snprintf(key, sizeof key, "s%d", i); arglist_off(key, sbuf[i], MAXDIMS); ss[i] = sbuf[i];
            snprintf(key, sizeof key, "c%d", i); cv = arg(key);
            if (cv && !strcmp(cv, "NULL")) { cc[i] = NULL; m = 1; }
            else { arglist_off(key, cbuf[i], MAXDIMS); cc[i] = cbuf[i]; for (j = 0; j < nd; j++) m *= (cbuf[i][j] > 0 ? (long)cbuf[i][j] : 0); }
            n += m;
        }
    } else { for (i = 0; i < nc_; i++) n *= (c[i] > 0 ? (long)c[i] : 0); }
    if (arg("nel")) n = (long)argi("nel", n);
    if (arg("maxn") && n > argi("maxn", 0)) { OUT(" rc=-99999 skipped=1 n=%ld", n); return; }   /* untrusted shapes (C19): do not let the harness allocate absurd buffers */
    arena_make(&a, mem, n, lay, nc_ > 0 ? nc_ : 0, c, (form == FM_VARM && nim > 0 && !arg("imapnull")) ? im : NULL);
    a.isget = isget;
    if (!isget) arena_fill(&a, arg("vals"), argi("tag", 1), argi("scale", 1));
    arena_snapshot(&a);
    memset(&A, 0, sizeof A);
    A.ncid = ncid; A.varid = varid; A.s = arg("snull") ? NULL : s; A.c = arg("cnull") ? NULL : c;
    A.st = (nst > 0) ? st : NULL; A.im = (nim > 0 && !arg("imapnull")) ? im : NULL;
    A.num = num; A.ss = arg("ssnull") ? NULL : ss; A.cc = arg("ccnull") ? NULL : cc;
    A.buf = arg("bufnull") ? NULL : arena_buf(&a); A.req = arg("reqnull") ? NULL : &reqid;
    A.bufcount = arg("bufcount") ? (MPI_Offset)argi("bufcount", 0) : a.bufcount; A.buftype = a.dtype;
    if (isvard) {
        rc = make_filetype(ncid, varid, s, c, &ft);
        if (rc == NC_NOERR) {
            if (isget) rc = coll ? ncmpi_get_vard_all(ncid, varid, ft, A.buf, A.bufcount, A.buftype) : ncmpi_get_vard(ncid, varid, ft, A.buf, A.bufcount, A.buftype);
            else rc = coll ? ncmpi_put_vard_all(ncid, varid, ft, A.buf, A.bufcount, A.buftype) : ncmpi_put_vard(ncid, varid, ft, A.buf, A.bufcount, A.buftype);
            PMPI_Type_free(&ft);
        } else {
            /* bad varid etc.: still make the call with a harmless filetype so that the library's own check answers */
            if (isget) rc = coll ? ncmpi_get_vard_all(ncid, varid, MPI_BYTE, A.buf, 0, MPI_BYTE) : ncmpi_get_vard(ncid, varid, MPI_BYTE, A.buf, 0, MPI_BYTE);
            else rc = coll ? ncmpi_put_vard_all(ncid, varid, MPI_BYTE, A.buf, 0, MPI_BYTE) : ncmpi_put_vard(ncid, varid, MPI_BYTE, A.buf, 0, MPI_BYTE);
        }
    } else if (flex) rc = flex_call(kind, form, coll, &A);
    else rc = typed_call(mem, kind, form, coll, &A);

    OUT(" rc=%d", rc);
    if (kind == K_PUT || kind == K_GET) {
        if (isget) { OUT(" guard=%d", arena_guard_bad(&a)); arena_print_vals(g_log, &a); }
        else OUT(" mod=%d", arena_modified(&a));
        arena_free(&a);
    } else {
        OUT(" id=%d", reqid);
        if (slot >= 0 && slot < NREQ) { arena_free(&Q[slot].a); Q[slot].a = a; Q[slot].id = reqid; Q[slot].used = 1; }
        else arena_free(&a);
    }
}

/* ids=q0,q1,N,raw:17   N = NC_REQ_NULL */
static int parse_ids(int *ids, int *slots, int max)
{
    const char *v = arg("ids"); int n = 0;
    if (!v) return 0;
    while (*v && n < max) {
        if (*v == 'q') { int k = (int)strtol(v + 1, (char **)&v, 10); slots[n] = k; ids[n] = Q[k].id; n++; }
        else if (*v == 'N') { slots[n] = -1; ids[n] = NC_REQ_NULL; n++; v++; }
        else if (!strncmp(v, "raw:", 4)) { slots[n] = -1; ids[n] = (int)strtol(v + 4, (char **)&v, 10); n++; }
        else break;
        if (*v == ',') v++;
    }
    return n;
}

static void op_wait(int cancel)
{
    int ncid = get_ncid(), all = (int)argi("all", 1), ids[NREQ], slots[NREQ], st[NREQ], n, i, rc;
    const char *kind = arg("kind");
    for (i = 0; i < NREQ; i++) st[i] = -777;
    if (kind) {
        int k = !strcmp(kind, "ALL") ? NC_REQ_ALL : !strcmp(kind, "GET") ? NC_GET_REQ_ALL : NC_PUT_REQ_ALL;
        if (cancel) rc = ncmpi_cancel(ncid, k, NULL, NULL);
        else rc = all ? ncmpi_wait_all(ncid, k, NULL, NULL) : ncmpi_wait(ncid, k, NULL, NULL);
        OUT(" rc=%d", rc);
        return;
    }
    n = parse_ids(ids, slots, NREQ);
    if (arg("num")) n = (int)argi("num", n);
    if (cancel) rc = ncmpi_cancel(ncid, n, arg("idsnull") ? NULL : ids, arg("stnull") ? NULL : st);
    else rc = all ? ncmpi_wait_all(ncid, n, arg("idsnull") ? NULL : ids, arg("stnull") ? NULL : st)
                  : ncmpi_wait(ncid, n, arg("idsnull") ? NULL : ids, arg("stnull") ? NULL : st);
    OUT(" rc=%d st=", rc);
    for (i = 0; i < n && i < NREQ; i++) OUT("%s%d", i ? "," : "", st[i]);
    OUT(" ids=");
    for (i = 0; i < n && i < NREQ; i++) { if (ids[i] == NC_REQ_NULL) OUT("%sN", i ? "," : ""); else OUT("%s%d", i ? "," : "", ids[i]); }
    for (i = 0; i < n && i < NREQ; i++) if (slots[i] >= 0) Q[slots[i]].id = ids[i];
}

/* rbuf req=k : contents + guard of the buffer of request slot k; wbuf req=k : was a write buffer modified */
static void op_rbuf(void)
{
    int k = (int)argi("req", 0);
    if (!Q[k].used) { OUT(" rc=-1"); return; }
    OUT(" rc=0 guard=%d mod=%d", Q[k].a.isget ? arena_guard_bad(&Q[k].a) : 0, arena_modified(&Q[k].a));
    arena_print_vals(g_log, &Q[k].a);
}
/* poke req=k : overwrite the user's buffer of a posted request (allowed for bput after posting) */
static void op_poke(void)
{
    int k = (int)argi("req", 0); long i; arena_t *a = &Q[k].a; int sz;
    if (!Q[k].used) { OUT(" rc=-1"); return; }
    sz = mt_size[a->mem];
    for (i = 0; i < a->n; i++) memset((unsigned char *)arena_buf(a) + a->off[i] * sz, 0x55, sz);
    arena_snapshot(a);
    OUT(" rc=0");
}
