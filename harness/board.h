/* The board: a small mmap'ed file shared by the ranks of one job.  It is not MPI,
 * so it keeps working when MPI would hang.  See DESIGN.md 3.3. */
#ifndef VERIF_BOARD_H
#define VERIF_BOARD_H

#define BD_MAXR 8
#define BD_MAXLOG 1024
#define BD_MAXPREFIX 512

enum { ST_RUNNING = 0, ST_PEND_COLL = 1, ST_PEND_INDEP = 2, ST_AT_BARRIER = 3, ST_BLOCKED_P2P = 4, ST_DONE = 5 };

/* collective classes (signature = class + parameters) */
enum { CL_ALLREDUCE = 1, CL_BCAST, CL_REDUCE, CL_BARRIER, CL_GATHER, CL_GATHERV, CL_ALLGATHER, CL_ALLTOALL,
       CL_COMM_DUP, CL_COMM_SPLIT, CL_FILE_OPEN, CL_FILE_CLOSE, CL_FILE_SET_VIEW, CL_FILE_SYNC,
       CL_FILE_SET_SIZE, CL_FILE_WRITE_ALL, CL_FILE_READ_ALL, CL_COMM_FREE, CL_MAX };

typedef struct {
    volatile int state;
    volatile int grant;
    volatile unsigned members;   /* bitmask of world ranks of the communicator (PEND_COLL) */
    volatile int cls;            /* collective class / indep kind (0 read, 1 write, 2 sync) */
    volatile long sig;           /* parameters that must agree (root, bytes, op) or barrier number */
    volatile long lo, hi;        /* byte hull of an independent access */
    volatile int op;             /* executor op (line) currently executing */
    volatile int ncoll;          /* number of collectives entered inside current op */
    char what[32];               /* MPI function name */
} bd_rank_t;

typedef struct {
    int enabled;                 /* bitmask of ranks with a pending independent access */
    int choice;
    int cls[BD_MAXR];
    long lo[BD_MAXR], hi[BD_MAXR];
} bd_log_t;

/* file accesses of the current synchronisation epoch (race check, see shim.c) */
#define BD_RACELOG 256
typedef struct { volatile long epoch, lo, hi; volatile int kind, op; } bd_acc_t;

typedef struct {
    volatile int lock;
    volatile int np;
    volatile int verdict;        /* 0 none, 1 collective mismatch / deadlock, 2 schedule divergence, 3 nondeterminism not owned */
    char msg[2048];
    volatile int sched_on;       /* independent accesses are scheduling points */
    volatile int step;
    volatile int prefix_len;
    int prefix[BD_MAXPREFIX];
    volatile int nlog;
    bd_log_t log[BD_MAXLOG];
    volatile long change;        /* bumped on every state change (grace timer) */
    bd_rank_t r[BD_MAXR];
    volatile int nacc[BD_MAXR];  /* entries written so far into acc[rank][] (ring) */
    bd_acc_t acc[BD_MAXR][BD_RACELOG];
} board_t;

void board_init(const char *path, int rank, int np);
int  board_active(void);
board_t *board_ptr(void);
void board_case_reset(int sched_on, int nprefix, const int *prefix);  /* rank 0 only, others must be quiescent */
void board_set_op(int op);
void board_barrier(long k);                 /* executor lock-step barrier */
void board_coll(int cls, long sig, unsigned members, const char *what);
void board_indep(int kind, long lo, long hi, const char *what);
void board_p2p_begin(const char *what);
int  board_p2p_poll(void);                  /* call while spinning in a blocked p2p; returns 1 if a verdict was reached */
void board_p2p_end(void);
void board_done(void);
void board_fail(int code, const char *msg); /* write verdict and exit */
void board_acc_log(long epoch, int kind, long lo, long hi);   /* record one exact file access of this rank */
void board_acc_check(long epoch);                              /* after a synchronising collective: conflicts of the finished epoch */
void board_acc_reset(void);
extern void (*board_verdict_hook)(const char *msg);  /* called (once, on detecting rank) before _exit */
#endif
