/* Board implementation.  Never sanitised, raw atomics, part of the trusted base. */
#include <stdio.h>
#include <stdlib.h>
#include <string.h>
#include <unistd.h>
#include <fcntl.h>
#include <time.h>
#include <sys/mman.h>
#include "board.h"

static board_t *B;
static int me = -1, active = 0;
void (*board_verdict_hook)(const char *msg) = NULL;

#define GRACE_NS 1500000000L   /* only used when some rank is blocked in point-to-point */

static long now_ns(void) { struct timespec t; clock_gettime(CLOCK_MONOTONIC, &t); return t.tv_sec * 1000000000L + t.tv_nsec; }
static volatile long *last_change_ns(void) { return (volatile long *)&B->change; }

static void lock(void) { while (__sync_lock_test_and_set(&B->lock, 1)) usleep(1); }
static void unlock(void) { __sync_lock_release(&B->lock); }

board_t *board_ptr(void) { return B; }
int board_active(void) { return active; }

void board_init(const char *path, int rank, int np)
{
    int fd = open(path, O_RDWR | O_CREAT, 0600);
    if (fd < 0) { perror("board open"); _exit(3); }
    if (ftruncate(fd, sizeof(board_t)) != 0) { perror("board ftruncate"); _exit(3); }
    B = mmap(0, sizeof(board_t), PROT_READ | PROT_WRITE, MAP_SHARED, fd, 0);
    close(fd);
    if (B == MAP_FAILED) { perror("board mmap"); _exit(3); }
    me = rank; B->np = np;
    if (np > BD_MAXR) { fprintf(stderr, "board: np too large\n"); _exit(3); }
    active = (np > 1);
}

void board_case_reset(int sched_on, int nprefix, const int *prefix)
{
    int i;
    if (!active) return;
    lock();
    B->verdict = 0; B->msg[0] = 0;
    B->sched_on = sched_on; B->step = 0; B->nlog = 0;
    B->prefix_len = nprefix > BD_MAXPREFIX ? BD_MAXPREFIX : nprefix;
    for (i = 0; i < B->prefix_len; i++) B->prefix[i] = prefix[i];
    for (i = 0; i < BD_MAXR; i++) { B->r[i].state = ST_RUNNING; B->r[i].grant = 0; B->r[i].op = 0; B->r[i].ncoll = 0; }
    *last_change_ns() = now_ns();
    unlock();
}

static const char *sname(int s)
{
    static const char *n[] = { "RUNNING", "PEND_COLL", "PEND_INDEP", "AT_BARRIER", "BLOCKED_P2P", "DONE" };
    return (s >= 0 && s <= 5) ? n[s] : "?";
}

static void describe(char *p, const char *head)
{
    int i, np = B->np;
    p += sprintf(p, "%s:", head);
    for (i = 0; i < np; i++) {
        bd_rank_t *r = &B->r[i];
        if (r->state == ST_PEND_COLL)
            p += sprintf(p, " r%d=PEND_COLL(%s,cls=%d,sig=%ld,members=0x%x,op=%d,k=%d)", i, r->what, r->cls, r->sig, r->members, r->op, r->ncoll);
        else if (r->state == ST_AT_BARRIER)
            p += sprintf(p, " r%d=AT_BARRIER(%ld,op=%d,k=%d)", i, r->sig, r->op, r->ncoll);
        else if (r->state == ST_BLOCKED_P2P)
            p += sprintf(p, " r%d=BLOCKED_P2P(%s,op=%d)", i, r->what, r->op);
        else
            p += sprintf(p, " r%d=%s(op=%d)", i, sname(r->state), r->op);
    }
}

/* called with the lock held */
static void decide(void)
{
    int i, j, np = B->np, nind = 0, nbar = 0, ndone = 0, np2p = 0, ncoll = 0, enabled = 0, granted = 0;
    long bsig = 0; int bsame = 1;
    if (B->verdict) return;
    for (i = 0; i < np; i++) {
        if (B->r[i].grant) return;             /* a grant is outstanding */
        switch (B->r[i].state) {
            case ST_RUNNING: return;
            case ST_PEND_INDEP: nind++; enabled |= 1 << i; break;
            case ST_PEND_COLL: ncoll++; break;
            case ST_AT_BARRIER: if (nbar == 0) bsig = B->r[i].sig; else if (bsig != B->r[i].sig) bsame = 0; nbar++; break;
            case ST_BLOCKED_P2P: np2p++; break;
            case ST_DONE: ndone++; break;
        }
    }
    if (nind > 0) {
        int c = -1;
        if (B->step < B->prefix_len) {
            c = B->prefix[B->step];
            if (c < 0 || c >= np || !(enabled & (1 << c))) {
                sprintf(B->msg, "SCHED-DIVERGENCE at step %d: prefix wants rank %d, enabled=0x%x", B->step, c, enabled);
                B->verdict = 2; return;
            }
        } else {
            c = -1;
            /* default policy: the rank that made the previous step if still enabled, else lowest */
            if (B->nlog > 0) { int pc = B->log[B->nlog - 1].choice; if (pc >= 0 && (enabled & (1 << pc))) c = pc; }
            if (c < 0) for (c = 0; c < np; c++) if (enabled & (1 << c)) break;
        }
        if (B->nlog < BD_MAXLOG) {
            bd_log_t *l = &B->log[B->nlog++];
            l->enabled = enabled; l->choice = c;
            for (j = 0; j < np; j++) { l->cls[j] = B->r[j].cls; l->lo[j] = B->r[j].lo; l->hi[j] = B->r[j].hi; }
        }
        B->step++;
        B->r[c].state = ST_RUNNING; B->r[c].grant = 1; *last_change_ns() = now_ns();
        return;
    }
    /* fully matched collectives: one joint transition per communicator */
    for (i = 0; i < np; i++) {
        unsigned M; int ok = 1;
        if (B->r[i].state != ST_PEND_COLL) continue;
        M = B->r[i].members;
        for (j = 0; j < np; j++) {
            if (!(M & (1u << j))) continue;
            if (B->r[j].state != ST_PEND_COLL || B->r[j].members != M || B->r[j].cls != B->r[i].cls || B->r[j].sig != B->r[i].sig) { ok = 0; break; }
        }
        if (ok) {
            for (j = 0; j < np; j++) if (M & (1u << j)) { B->r[j].state = ST_RUNNING; B->r[j].grant = 1; }
            granted = 1;
        }
    }
    if (granted) { *last_change_ns() = now_ns(); return; }
    if (nbar == np && bsame) {
        for (i = 0; i < np; i++) { B->r[i].state = ST_RUNNING; B->r[i].grant = 1; }
        *last_change_ns() = now_ns();
        return;
    }
    if (ndone == np) return;
    /* nobody runs, nothing is enabled */
    if (np2p > 0) {
        if (now_ns() - *last_change_ns() < GRACE_NS) return;   /* a message may still be in flight */
        describe(B->msg, "DEADLOCK(p2p,timer)"); B->verdict = 1; return;
    }
    if (ncoll > 0) describe(B->msg, "COLLECTIVE-MISMATCH");
    else describe(B->msg, "DEADLOCK");
    B->verdict = 1;
}

static void die_on_verdict(void)
{
    char buf[2100];
    snprintf(buf, sizeof buf, "%s", B->msg);
    if (board_verdict_hook) board_verdict_hook(buf);
    _exit(40 + B->verdict);
}

static void park(int state, int cls, long sig, unsigned members, long lo, long hi, const char *what)
{
    bd_rank_t *r = &B->r[me];
    lock();
    r->cls = cls; r->sig = sig; r->members = members; r->lo = lo; r->hi = hi;
    strncpy(r->what, what ? what : "", sizeof r->what - 1); r->what[sizeof r->what - 1] = 0;
    r->grant = 0;
    r->state = state;
    *last_change_ns() = now_ns();
    unlock();
    for (;;) {
        int g, v;
        lock();
        decide();
        g = r->grant; v = B->verdict;
        if (g) r->grant = 0;
        unlock();
        if (g) return;
        if (v) die_on_verdict();
        usleep(15);
    }
}

void board_set_op(int op) { if (active) { B->r[me].op = op; B->r[me].ncoll = 0; } }

void board_barrier(long k) { if (active) park(ST_AT_BARRIER, 0, k, 0, 0, 0, "barrier"); }

void board_coll(int cls, long sig, unsigned members, const char *what)
{
    if (!active) return;
    B->r[me].ncoll++;
    if (members == (1u << me)) return;      /* communicator of size one: local */
    park(ST_PEND_COLL, cls, sig, members, 0, 0, what);
}

void board_indep(int kind, long lo, long hi, const char *what)
{
    if (!active || !B->sched_on) return;
    park(ST_PEND_INDEP, kind, 0, 0, lo, hi, what);
}

void board_p2p_begin(const char *what)
{
    if (!active) return;
    lock();
    strncpy(B->r[me].what, what, sizeof B->r[me].what - 1);
    B->r[me].state = ST_BLOCKED_P2P; *last_change_ns() = now_ns();
    unlock();
}

int board_p2p_poll(void)
{
    int v;
    if (!active) return 0;
    lock(); decide(); v = B->verdict; unlock();
    if (v) die_on_verdict();
    return 0;
}

void board_p2p_end(void)
{
    if (!active) return;
    lock(); B->r[me].state = ST_RUNNING; *last_change_ns() = now_ns(); unlock();
}

void board_done(void) { if (!active) return; lock(); B->r[me].state = ST_DONE; *last_change_ns() = now_ns(); unlock(); }

void board_fail(int code, const char *msg)
{
    if (B) { lock(); if (!B->verdict) { B->verdict = code; snprintf(B->msg, sizeof B->msg, "%s", msg); } unlock(); die_on_verdict(); }
    fprintf(stderr, "%s\n", msg); _exit(40 + code);
}


/* ------------------------------------------------------------------ file-access race check
 * Accesses of different ranks inside one synchronisation epoch (= between two collectives that really synchronise:
 * Allreduce, Barrier, Allgather, Alltoall over all ranks) are unordered by happens-before, whatever the MPI-IO layer happens
 * to do: an overlap with at least one write is a race for SOME schedule, so it is reported for EVERY schedule. */
void board_acc_reset(void)
{
    if (!active) return;
    B->nacc[me] = 0;
}

void board_acc_log(long epoch, int kind, long lo, long hi)
{
    int k;
    if (!active || hi <= lo) return;
    k = B->nacc[me] % BD_RACELOG;
    B->acc[me][k].epoch = epoch; B->acc[me][k].kind = kind; B->acc[me][k].lo = lo; B->acc[me][k].hi = hi; B->acc[me][k].op = B->r[me].op;
    __sync_synchronize();
    B->nacc[me]++;
}

void board_acc_check(long epoch)
{
    int o, i, j, ni, nj;
    if (!active) return;
    __sync_synchronize();
    ni = B->nacc[me] < BD_RACELOG ? B->nacc[me] : BD_RACELOG;
    for (o = me + 1; o < B->np; o++) {
        nj = B->nacc[o] < BD_RACELOG ? B->nacc[o] : BD_RACELOG;
        for (i = 0; i < ni; i++) {
            if (B->acc[me][i].epoch != epoch) continue;
            for (j = 0; j < nj; j++) {
                if (B->acc[o][j].epoch != epoch) continue;
                if (!(B->acc[me][i].kind || B->acc[o][j].kind)) continue;        /* two reads */
                if (B->acc[me][i].lo < B->acc[o][j].hi && B->acc[o][j].lo < B->acc[me][i].hi) {
                    char m[256];
                    snprintf(m, sizeof m, "FILE-RACE: rank %d %s [%ld,%ld) and rank %d %s [%ld,%ld) in op %d without a synchronising collective in between",
                             me, B->acc[me][i].kind ? "writes" : "reads", B->acc[me][i].lo, B->acc[me][i].hi, o, B->acc[o][j].kind ? "writes" : "reads", B->acc[o][j].lo, B->acc[o][j].hi, B->acc[me][i].op);
                    board_fail(6, m);
                }
            }
        }
    }
}
