/* PMPI interposition layer: collective matching via the board, controlled interleaving of
 * independent file accesses, fault injection, resource ledger, I/O trace.  DESIGN.md 3.3.
 * The executor itself uses PMPI_* so that only the library's calls pass through here. */
#include <mpi.h>
#include <stdio.h>
#include <stdlib.h>
#include <string.h>
#include <unistd.h>
#include "board.h"
#include "shim.h"

int shim_inj = 0;            /* injectable MPI-IO calls seen in this case (this rank) */
int shim_fault_n = 0;        /* 1-based position to fail, 0 = none */
int shim_fault_class = 0;
int shim_fault_hit = 0;      /* set when the fault fired */
char shim_fault_where[48];
long shim_led_types = 0, shim_led_comms = 0, shim_led_infos = 0, shim_led_files = 0, shim_led_reqs = 0;
long shim_ncoll = 0, shim_nindep = 0;
/* livelock guard: the board cannot see ranks that keep making matching collective calls for ever */
static long shim_case_coll = 0, shim_coll_limit = 0;
static void coll_tick(void)
{
    if (!shim_coll_limit) { const char *e = getenv("VX_MAX_COLL"); shim_coll_limit = e ? atol(e) : 200000; }
    if (++shim_case_coll > shim_coll_limit) { char m[128]; snprintf(m, sizeof m, "LIVELOCK: more than %ld collective calls in one case", shim_coll_limit); board_fail(5, m); }
}
int shim_trace_on = 0;
char shim_trace[8192]; int shim_trace_len = 0;

static int world_rank = -1, world_np = 0;
static MPI_Group world_group = MPI_GROUP_NULL;

#define MAXFH 128
static struct { MPI_File fh; unsigned members; int used; } fht[MAXFH];

void shim_init(void)
{
    PMPI_Comm_rank(MPI_COMM_WORLD, &world_rank);
    PMPI_Comm_size(MPI_COMM_WORLD, &world_np);
    PMPI_Comm_group(MPI_COMM_WORLD, &world_group);
}

void shim_case_reset(int fault_n, int fault_class)
{
    shim_case_coll = 0;
    shim_inj_view = 0;
    shim_inj = 0; shim_fault_n = fault_n; shim_fault_class = fault_class; shim_fault_hit = 0; shim_fault_where[0] = 0;
    shim_trace_len = 0; shim_trace[0] = 0;
}

static void trace(const char *fmt, ...)
{
    /* cheap varargs-free tracer is overkill; use vsnprintf */
    va_list ap;
    if (!shim_trace_on || shim_trace_len > (int)sizeof(shim_trace) - 128) return;
    va_start(ap, fmt);
    shim_trace_len += vsnprintf(shim_trace + shim_trace_len, sizeof(shim_trace) - shim_trace_len, fmt, ap);
    va_end(ap);
}

static unsigned comm_members(MPI_Comm c)
{
    MPI_Group g; int n, i; unsigned m = 0;
    int in[BD_MAXR], out[BD_MAXR];
    if (world_np <= 1) return 1u;
    PMPI_Comm_group(c, &g);
    PMPI_Group_size(g, &n);
    if (n > BD_MAXR) n = BD_MAXR;
    for (i = 0; i < n; i++) in[i] = i;
    PMPI_Group_translate_ranks(g, n, in, world_group, out);
    for (i = 0; i < n; i++) if (out[i] >= 0 && out[i] < 32) m |= 1u << out[i];
    PMPI_Group_free(&g);
    return m;
}

static int comm_world_rank_of(MPI_Comm c, int r)
{
    MPI_Group g; int out;
    if (world_np <= 1) return 0;
    PMPI_Comm_group(c, &g);
    PMPI_Group_translate_ranks(g, 1, &r, world_group, &out);
    PMPI_Group_free(&g);
    return out;
}

static void fh_add(MPI_File fh, unsigned members)
{
    int i;
    for (i = 0; i < MAXFH; i++) if (!fht[i].used) { fht[i].used = 1; fht[i].fh = fh; fht[i].members = members; return; }
}
static unsigned fh_members(MPI_File fh)
{
    int i;
    for (i = 0; i < MAXFH; i++) if (fht[i].used && fht[i].fh == fh) return fht[i].members;
    return 1u << world_rank;
}
static void fh_del(MPI_File fh)
{
    int i;
    for (i = 0; i < MAXFH; i++) if (fht[i].used && fht[i].fh == fh) { fht[i].used = 0; return; }
}

static long tsize(MPI_Datatype t) { int s = 0; if (t == MPI_DATATYPE_NULL) return 0; PMPI_Type_size(t, &s); return s; }

/* returns 1 when this injectable call must fail */
static long inj_bytes = -1;
int shim_inj_view = 0;             /* case option injview=1: the injectable calls of the case are its MPI_File_set_view calls, and only those */
static int inject(const char *what)
{
    if (shim_inj_view && strcmp(what, "MPI_File_set_view")) return 0;
    shim_inj++;
    if (shim_fault_n && shim_inj == shim_fault_n) {
        shim_fault_hit = 1;
        snprintf(shim_fault_where, sizeof shim_fault_where, "%s%s", what, inj_bytes == 0 ? ":zero-length" : "");
        return 1;
    }
    return 0;
}

/* race check (board.c): epochs are delimited by collectives that synchronise all ranks */
int shim_race_on = 0;              /* set by the executor around library calls whose internal file traffic is judged (enddef) */
static long shim_epoch = 0;
static void race_sync(int cls, unsigned members)
{
    if (!(cls == CL_ALLREDUCE || cls == CL_BARRIER || cls == CL_ALLGATHER || cls == CL_ALLTOALL)) return;
    if (world_np < 2 || members != (world_np >= 32 ? 0xffffffffu : ((1u << world_np) - 1))) return;
    /* board_coll has returned: every rank has arrived, so every access of the finished epoch is in the log */
    if (shim_race_on) board_acc_check(shim_epoch);
    shim_epoch++;
}
void shim_race_case_reset(void) { shim_epoch = 0; board_acc_reset(); }
void shim_race_flush(void) { if (shim_race_on) board_acc_check(shim_epoch); shim_epoch++; }
#define COLL(cls, sig, comm, name) do { unsigned mm_ = comm_members(comm); shim_ncoll++; coll_tick(); board_coll((cls), (sig), mm_, (name)); race_sync((cls), mm_); } while (0)
#define FCOLL(cls, sig, fh, name) do { shim_ncoll++; coll_tick(); board_coll((cls), (sig), fh_members(fh), (name)); } while (0)

/* ---------------- communicator collectives ---------------- */
int MPI_Allreduce(const void *s, void *r, int c, MPI_Datatype t, MPI_Op o, MPI_Comm m)
{ COLL(CL_ALLREDUCE, (long)c * tsize(t) * 16 + (o == MPI_MAX ? 1 : o == MPI_MIN ? 2 : o == MPI_SUM ? 3 : o == MPI_LOR ? 4 : o == MPI_LAND ? 5 : o == MPI_BOR ? 6 : 7), m, "MPI_Allreduce"); return PMPI_Allreduce(s, r, c, t, o, m); }
int MPI_Reduce(const void *s, void *r, int c, MPI_Datatype t, MPI_Op o, int root, MPI_Comm m)
{ COLL(CL_REDUCE, ((long)c * tsize(t)) * 64 + comm_world_rank_of(m, root), m, "MPI_Reduce"); return PMPI_Reduce(s, r, c, t, o, root, m); }
int MPI_Bcast(void *b, int c, MPI_Datatype t, int root, MPI_Comm m)
{ COLL(CL_BCAST, ((long)c * tsize(t)) * 64 + comm_world_rank_of(m, root), m, "MPI_Bcast"); return PMPI_Bcast(b, c, t, root, m); }
int MPI_Barrier(MPI_Comm m) { COLL(CL_BARRIER, 0, m, "MPI_Barrier"); return PMPI_Barrier(m); }
int MPI_Gather(const void *s, int sc, MPI_Datatype st, void *r, int rc, MPI_Datatype rt, int root, MPI_Comm m)
{ COLL(CL_GATHER, comm_world_rank_of(m, root), m, "MPI_Gather"); return PMPI_Gather(s, sc, st, r, rc, rt, root, m); }
int MPI_Gatherv(const void *s, int sc, MPI_Datatype st, void *r, const int *rc, const int *d, MPI_Datatype rt, int root, MPI_Comm m)
{ COLL(CL_GATHERV, comm_world_rank_of(m, root), m, "MPI_Gatherv"); return PMPI_Gatherv(s, sc, st, r, rc, d, rt, root, m); }
int MPI_Allgather(const void *s, int sc, MPI_Datatype st, void *r, int rc, MPI_Datatype rt, MPI_Comm m)
{ COLL(CL_ALLGATHER, (long)sc * tsize(st), m, "MPI_Allgather"); return PMPI_Allgather(s, sc, st, r, rc, rt, m); }
int MPI_Alltoall(const void *s, int sc, MPI_Datatype st, void *r, int rc, MPI_Datatype rt, MPI_Comm m)
{ COLL(CL_ALLTOALL, (long)sc * tsize(st), m, "MPI_Alltoall"); return PMPI_Alltoall(s, sc, st, r, rc, rt, m); }
int MPI_Comm_dup(MPI_Comm m, MPI_Comm *n)
{ int e; COLL(CL_COMM_DUP, 0, m, "MPI_Comm_dup"); e = PMPI_Comm_dup(m, n); if (e == MPI_SUCCESS) shim_led_comms++; return e; }
int MPI_Comm_split(MPI_Comm m, int color, int key, MPI_Comm *n)
{ int e; COLL(CL_COMM_SPLIT, 0, m, "MPI_Comm_split"); e = PMPI_Comm_split(m, color, key, n); if (e == MPI_SUCCESS && *n != MPI_COMM_NULL) shim_led_comms++; return e; }
int MPI_Comm_split_type(MPI_Comm m, int st, int key, MPI_Info info, MPI_Comm *n)
{ int e; COLL(CL_COMM_SPLIT, 1, m, "MPI_Comm_split_type"); e = PMPI_Comm_split_type(m, st, key, info, n); if (e == MPI_SUCCESS && *n != MPI_COMM_NULL) shim_led_comms++; return e; }
int MPI_Comm_free(MPI_Comm *m)
{ int e; e = PMPI_Comm_free(m); if (e == MPI_SUCCESS) shim_led_comms--; return e; }

/* ---------------- nondeterminism the harness does not own ---------------- */
#define NOT_OWNED(name) do { board_fail(3, "NONDETERMINISM-NOT-OWNED: " name); } while (0)
int MPI_Waitany(int c, MPI_Request r[], int *i, MPI_Status *s) { NOT_OWNED("MPI_Waitany"); return PMPI_Waitany(c, r, i, s); }
int MPI_Waitsome(int c, MPI_Request r[], int *oc, int idx[], MPI_Status s[]) { NOT_OWNED("MPI_Waitsome"); return PMPI_Waitsome(c, r, oc, idx, s); }
int MPI_Test(MPI_Request *r, int *f, MPI_Status *s) { NOT_OWNED("MPI_Test"); return PMPI_Test(r, f, s); }
int MPI_Testany(int c, MPI_Request r[], int *i, int *f, MPI_Status *s) { NOT_OWNED("MPI_Testany"); return PMPI_Testany(c, r, i, f, s); }
int MPI_Testall(int c, MPI_Request r[], int *f, MPI_Status s[]) { NOT_OWNED("MPI_Testall"); return PMPI_Testall(c, r, f, s); }
int MPI_Probe(int src, int tag, MPI_Comm m, MPI_Status *s) { NOT_OWNED("MPI_Probe"); return PMPI_Probe(src, tag, m, s); }
int MPI_Iprobe(int src, int tag, MPI_Comm m, int *f, MPI_Status *s) { NOT_OWNED("MPI_Iprobe"); return PMPI_Iprobe(src, tag, m, f, s); }
int MPI_Recv(void *b, int c, MPI_Datatype t, int src, int tag, MPI_Comm m, MPI_Status *s)
{ if (src == MPI_ANY_SOURCE) NOT_OWNED("MPI_Recv(ANY_SOURCE)");
  { MPI_Request rq; int e = PMPI_Irecv(b, c, t, src, tag, m, &rq); if (e != MPI_SUCCESS) return e; return MPI_Waitall(1, &rq, s == MPI_STATUS_IGNORE ? MPI_STATUSES_IGNORE : s); } }

/* ---------------- point to point (intra-node aggregation) ---------------- */
int MPI_Irecv(void *b, int c, MPI_Datatype t, int src, int tag, MPI_Comm m, MPI_Request *r)
{ int e; if (src == MPI_ANY_SOURCE) NOT_OWNED("MPI_Irecv(ANY_SOURCE)"); e = PMPI_Irecv(b, c, t, src, tag, m, r); if (e == MPI_SUCCESS) shim_led_reqs++; return e; }
int MPI_Isend(const void *b, int c, MPI_Datatype t, int dst, int tag, MPI_Comm m, MPI_Request *r)
{ int e = PMPI_Isend(b, c, t, dst, tag, m, r); if (e == MPI_SUCCESS) shim_led_reqs++; return e; }
int MPI_Waitall(int n, MPI_Request r[], MPI_Status s[])
{
    int i, flag = 0, e, live = 0;
    for (i = 0; i < n; i++) if (r[i] != MPI_REQUEST_NULL) live++;
    e = PMPI_Testall(n, r, &flag, s);
    if (e != MPI_SUCCESS) return e;
    if (!flag) {
        board_p2p_begin("MPI_Waitall");
        while (!flag) {
            board_p2p_poll();
            e = PMPI_Testall(n, r, &flag, s);
            if (e != MPI_SUCCESS) break;
            if (!flag) usleep(10);
        }
        board_p2p_end();
    }
    if (e == MPI_SUCCESS) shim_led_reqs -= live;
    return e;
}
int MPI_Send(const void *b, int c, MPI_Datatype t, int dst, int tag, MPI_Comm m)
{
    MPI_Request rq; int flag = 0, e;
    e = PMPI_Isend(b, c, t, dst, tag, m, &rq);
    if (e != MPI_SUCCESS) return e;
    e = PMPI_Test(&rq, &flag, MPI_STATUS_IGNORE);
    if (e == MPI_SUCCESS && !flag) {
        board_p2p_begin("MPI_Send");
        while (!flag) { board_p2p_poll(); e = PMPI_Test(&rq, &flag, MPI_STATUS_IGNORE); if (e != MPI_SUCCESS) break; if (!flag) usleep(10); }
        board_p2p_end();
    }
    return e;
}

/* ---------------- files ---------------- */
int MPI_File_open(MPI_Comm m, const char *name, int amode, MPI_Info info, MPI_File *fh)
{
    int e; unsigned mem = comm_members(m);
    COLL(CL_FILE_OPEN, 0, m, "MPI_File_open");
    e = PMPI_File_open(m, name, amode, info, fh);
    if (e == MPI_SUCCESS) { shim_led_files++; fh_add(*fh, mem); }
    trace("O%s;", e == MPI_SUCCESS ? "" : "!");
    return e;
}
int MPI_File_close(MPI_File *fh)
{
    int e, bad; MPI_File f = *fh;
    FCOLL(CL_FILE_CLOSE, 0, f, "MPI_File_close");
    bad = inject("MPI_File_close");
    e = PMPI_File_close(fh);
    if (e == MPI_SUCCESS) { shim_led_files--; fh_del(f); }
    trace("C;");
    if (bad && e == MPI_SUCCESS) return shim_fault_class;
    return e;
}
int MPI_File_set_view(MPI_File fh, MPI_Offset d, MPI_Datatype et, MPI_Datatype ft, const char *rep, MPI_Info info)
{
    int e, bad = 0;
    FCOLL(CL_FILE_SET_VIEW, 0, fh, "MPI_File_set_view");
    if (shim_inj_view) bad = inject("MPI_File_set_view");
    /* the view is set all the same (the call is collective and later traffic of the other processes relies on it); the caller is told it failed */
    e = PMPI_File_set_view(fh, d, et, ft, rep, info);
    if (bad && e == MPI_SUCCESS) return shim_fault_class;
    return e;
}
int MPI_File_sync(MPI_File fh)
{
    int e, bad; unsigned mem = fh_members(fh);
    if (mem == (1u << world_rank) && world_np > 1) { shim_nindep++; board_indep(2, 0, 0, "MPI_File_sync"); }
    else FCOLL(CL_FILE_SYNC, 0, fh, "MPI_File_sync");
    bad = inject("MPI_File_sync");
    e = PMPI_File_sync(fh);
    trace("S;");
    if (bad && e == MPI_SUCCESS) return shim_fault_class;
    return e;
}
int MPI_File_set_size(MPI_File fh, MPI_Offset sz)
{
    int e, bad;
    FCOLL(CL_FILE_SET_SIZE, sz, fh, "MPI_File_set_size");
    bad = inject("MPI_File_set_size");
    if (bad) { PMPI_File_get_size(fh, &sz); e = PMPI_File_set_size(fh, sz); return shim_fault_class; }
    e = PMPI_File_set_size(fh, sz);
    trace("Z%lld;", (long long)sz);
    return e;
}
int MPI_File_delete(const char *name, MPI_Info info) { trace("D;"); return PMPI_File_delete(name, info); }
int MPI_File_get_info(MPI_File fh, MPI_Info *info)
{ int e = PMPI_File_get_info(fh, info); if (e == MPI_SUCCESS && *info != MPI_INFO_NULL) shim_led_infos++; return e; }

static void hull(MPI_File fh, MPI_Offset off, int count, MPI_Datatype t, int at, long *lo, long *hi)
{
    MPI_Offset disp, byteoff = 0; MPI_Datatype et, ft; char rep[MPI_MAX_DATAREP_STRING + 1];
    MPI_Aint lb, ext; long nbytes = (long)count * tsize(t), fs;
    if (!at) PMPI_File_get_position(fh, &off);
    PMPI_File_get_byte_offset(fh, off, &byteoff);
    PMPI_File_get_view(fh, &disp, &et, &ft, rep);
    fs = tsize(ft); PMPI_Type_get_extent(ft, &lb, &ext);
    *lo = byteoff;
    if (fs <= 0 || fs == ext) *hi = byteoff + nbytes;
    else *hi = byteoff + ((nbytes + fs - 1) / fs + 1) * (long)ext;
    /* get_view returns new references for derived types */
    { int ni, na, nd, comb;
      PMPI_Type_get_envelope(et, &ni, &na, &nd, &comb); if (comb != MPI_COMBINER_NAMED) PMPI_Type_free(&et);
      PMPI_Type_get_envelope(ft, &ni, &na, &nd, &comb); if (comb != MPI_COMBINER_NAMED) PMPI_Type_free(&ft); }
}

/* exact byte range of an access, only when the current file view is contiguous (returns 0 otherwise: no claim is made) */
static int hull_exact(MPI_File fh, MPI_Offset off, int count, MPI_Datatype t, int at, long *lo, long *hi)
{
    MPI_Offset disp, byteoff = 0; MPI_Datatype et, ft; char rep[MPI_MAX_DATAREP_STRING + 1];
    MPI_Aint lb, ext; long nbytes = (long)count * tsize(t), fs; int exact;
    if (nbytes <= 0) return 0;
    if (!at) PMPI_File_get_position(fh, &off);
    PMPI_File_get_byte_offset(fh, off, &byteoff);
    PMPI_File_get_view(fh, &disp, &et, &ft, rep);
    fs = tsize(ft); PMPI_Type_get_extent(ft, &lb, &ext);
    exact = (fs > 0 && fs == ext);
    *lo = byteoff; *hi = byteoff + nbytes;
    { int ni, na, nd, comb;
      PMPI_Type_get_envelope(et, &ni, &na, &nd, &comb); if (comb != MPI_COMBINER_NAMED) PMPI_Type_free(&et);
      PMPI_Type_get_envelope(ft, &ni, &na, &nd, &comb); if (comb != MPI_COMBINER_NAMED) PMPI_Type_free(&ft); }
    return exact;
}

#define INDEP_PRE(kind, at, name) \
    long lo = 0, hi = 0; int bad; \
    shim_nindep++; \
    if (board_active() && board_ptr()->sched_on) hull(fh, off, c, t, at, &lo, &hi); \
    board_indep(kind, lo, hi, name); \
    if (shim_race_on) { long rl, rh; if (hull_exact(fh, off, c, t, at, &rl, &rh)) board_acc_log(shim_epoch, kind, rl, rh); } \
    inj_bytes = (long)c * tsize(t); bad = inject(name); inj_bytes = -1; \
    trace("%c%s@%lld+%ld;", kind ? 'w' : 'r', bad ? "!" : "", (long long)off, (long)c * tsize(t));

int MPI_File_write_at(MPI_File fh, MPI_Offset off, const void *b, int c, MPI_Datatype t, MPI_Status *s)
{ INDEP_PRE(1, 1, "MPI_File_write_at"); if (bad) return shim_fault_class; return PMPI_File_write_at(fh, off, b, c, t, s); }
int MPI_File_read_at(MPI_File fh, MPI_Offset off, void *b, int c, MPI_Datatype t, MPI_Status *s)
{ INDEP_PRE(0, 1, "MPI_File_read_at"); if (bad) return shim_fault_class; return PMPI_File_read_at(fh, off, b, c, t, s); }
int MPI_File_write(MPI_File fh, const void *b, int c, MPI_Datatype t, MPI_Status *s)
{ MPI_Offset off = 0; INDEP_PRE(1, 0, "MPI_File_write"); if (bad) return shim_fault_class; return PMPI_File_write(fh, b, c, t, s); }
int MPI_File_read(MPI_File fh, void *b, int c, MPI_Datatype t, MPI_Status *s)
{ MPI_Offset off = 0; INDEP_PRE(0, 0, "MPI_File_read"); if (bad) return shim_fault_class; return PMPI_File_read(fh, b, c, t, s); }

#define COLLIO_PRE(cls, name, ch) \
    int bad; \
    if (shim_race_on) { long rl, rh; if (hull_exact(fh, COLLIO_OFF, c, t, COLLIO_AT, &rl, &rh)) board_acc_log(shim_epoch, ch == 'W', rl, rh); } \
    FCOLL(cls, 0, fh, name); \
    inj_bytes = (long)c * tsize(t); bad = inject(name); inj_bytes = -1; \
    trace("%c%s+%ld;", ch, bad ? "!" : "", (long)c * tsize(t));

#define COLLIO_OFF off
#define COLLIO_AT 1
int MPI_File_write_at_all(MPI_File fh, MPI_Offset off, const void *b, int c, MPI_Datatype t, MPI_Status *s)
{ COLLIO_PRE(CL_FILE_WRITE_ALL, "MPI_File_write_at_all", 'W'); if (bad) { PMPI_File_write_at_all(fh, off, b, 0, MPI_BYTE, s); return shim_fault_class; } return PMPI_File_write_at_all(fh, off, b, c, t, s); }
#undef COLLIO_OFF
#undef COLLIO_AT
#define COLLIO_OFF 0
#define COLLIO_AT 0
int MPI_File_write_all(MPI_File fh, const void *b, int c, MPI_Datatype t, MPI_Status *s)
{ COLLIO_PRE(CL_FILE_WRITE_ALL, "MPI_File_write_all", 'W'); if (bad) { PMPI_File_write_all(fh, b, 0, MPI_BYTE, s); return shim_fault_class; } return PMPI_File_write_all(fh, b, c, t, s); }
#undef COLLIO_OFF
#undef COLLIO_AT
#define COLLIO_OFF off
#define COLLIO_AT 1
int MPI_File_read_at_all(MPI_File fh, MPI_Offset off, void *b, int c, MPI_Datatype t, MPI_Status *s)
{ COLLIO_PRE(CL_FILE_READ_ALL, "MPI_File_read_at_all", 'R'); if (bad) { PMPI_File_read_at_all(fh, off, b, 0, MPI_BYTE, s); return shim_fault_class; } return PMPI_File_read_at_all(fh, off, b, c, t, s); }
#undef COLLIO_OFF
#undef COLLIO_AT
#define COLLIO_OFF 0
#define COLLIO_AT 0
int MPI_File_read_all(MPI_File fh, void *b, int c, MPI_Datatype t, MPI_Status *s)
{ COLLIO_PRE(CL_FILE_READ_ALL, "MPI_File_read_all", 'R'); if (bad) { PMPI_File_read_all(fh, b, 0, MPI_BYTE, s); return shim_fault_class; } return PMPI_File_read_all(fh, b, c, t, s); }

/* ---------------- ledger: datatypes and info objects ---------------- */
#define TCREATE(call) do { int e = (call); if (e == MPI_SUCCESS) shim_led_types++; return e; } while (0)
int MPI_Type_contiguous(int c, MPI_Datatype o, MPI_Datatype *n) { TCREATE(PMPI_Type_contiguous(c, o, n)); }
int MPI_Type_vector(int c, int b, int s, MPI_Datatype o, MPI_Datatype *n) { TCREATE(PMPI_Type_vector(c, b, s, o, n)); }
int MPI_Type_create_hvector(int c, int b, MPI_Aint s, MPI_Datatype o, MPI_Datatype *n) { TCREATE(PMPI_Type_create_hvector(c, b, s, o, n)); }
int MPI_Type_indexed(int c, const int b[], const int d[], MPI_Datatype o, MPI_Datatype *n) { TCREATE(PMPI_Type_indexed(c, b, d, o, n)); }
int MPI_Type_create_hindexed(int c, const int b[], const MPI_Aint d[], MPI_Datatype o, MPI_Datatype *n) { TCREATE(PMPI_Type_create_hindexed(c, b, d, o, n)); }
int MPI_Type_create_struct(int c, const int b[], const MPI_Aint d[], const MPI_Datatype t[], MPI_Datatype *n) { TCREATE(PMPI_Type_create_struct(c, b, d, t, n)); }
int MPI_Type_create_subarray(int nd, const int sz[], const int ss[], const int st[], int order, MPI_Datatype o, MPI_Datatype *n) { TCREATE(PMPI_Type_create_subarray(nd, sz, ss, st, order, o, n)); }
int MPI_Type_create_resized(MPI_Datatype o, MPI_Aint lb, MPI_Aint ext, MPI_Datatype *n) { TCREATE(PMPI_Type_create_resized(o, lb, ext, n)); }
int MPI_Type_dup(MPI_Datatype o, MPI_Datatype *n) { TCREATE(PMPI_Type_dup(o, n)); }
int MPI_Type_free(MPI_Datatype *t) { int e = PMPI_Type_free(t); if (e == MPI_SUCCESS) shim_led_types--; return e; }
int MPI_Type_get_contents(MPI_Datatype t, int ni, int na, int nd, int ai[], MPI_Aint aa[], MPI_Datatype ad[])
{
    /* derived datatypes returned here are new references the caller must free */
    int e = PMPI_Type_get_contents(t, ni, na, nd, ai, aa, ad), i;
    if (e == MPI_SUCCESS) for (i = 0; i < nd; i++) { int a, b, c, comb; PMPI_Type_get_envelope(ad[i], &a, &b, &c, &comb); if (comb != MPI_COMBINER_NAMED) shim_led_types++; }
    return e;
}
int MPI_Info_create(MPI_Info *i) { int e = PMPI_Info_create(i); if (e == MPI_SUCCESS) shim_led_infos++; return e; }
int MPI_Info_dup(MPI_Info i, MPI_Info *n) { int e = PMPI_Info_dup(i, n); if (e == MPI_SUCCESS) shim_led_infos++; return e; }
int MPI_Info_free(MPI_Info *i) { int e = PMPI_Info_free(i); if (e == MPI_SUCCESS) shim_led_infos--; return e; }

int MPI_Abort(MPI_Comm c, int code)
{
    char m[64]; snprintf(m, sizeof m, "LIBRARY-CALLED-MPI_Abort(%d)", code);
    board_fail(4, m);
    return PMPI_Abort(c, code);
}
