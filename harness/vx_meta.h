/* vx metadata / file ops, the inquiry sweep, snapshots, ledger */

static MPI_Info make_info(const char *hints)
{
    MPI_Info info = MPI_INFO_NULL; char *h, *p, *q;
    if (!hints || !*hints) return MPI_INFO_NULL;
    PMPI_Info_create(&info);
    /* "@W@" in a hint value stands for "<workdir>/c<case>_" (directories the case creates itself) */
    { char pfx[700]; const char *at; size_t n; snprintf(pfx, sizeof pfx, "%s/c%d_", g_workdir, g_case);
      h = malloc(strlen(hints) + 8 * strlen(pfx) + 8); h[0] = 0;
      while ((at = strstr(hints, "@W@")) != NULL) { n = strlen(h); memcpy(h + n, hints, (size_t)(at - hints)); h[n + (at - hints)] = 0; strcat(h, pfx); hints = at + 3; }
      strcat(h, hints); }
    for (p = strtok_r(h, ";", &q); p; p = strtok_r(NULL, ";", &q)) {
        char *e = strchr(p, '=');
        if (e) { *e = 0; PMPI_Info_set(info, p, e + 1); }
    }
    free(h);
    return info;
}
static MPI_Comm get_comm(void) { const char *c = arg("comm"); return (c && !strcmp(c, "self")) ? MPI_COMM_SELF : MPI_COMM_WORLD; }

static void op_create_open(int create)
{
    char path[700]; int ncid = -4242, rc, mode = 0, f = (int)argi("f", 0);
    MPI_Info info = make_info(arg("hints"));
    path_of(path, sizeof path, "path");
    if (create) {
        int fmt = (int)argi("fmt", 1);
        mode = (fmt == 2) ? NC_64BIT_OFFSET : (fmt == 5) ? NC_64BIT_DATA : 0;
        if (argi("noclobber", 0)) mode |= NC_NOCLOBBER;
        if (arg("mode")) mode = (int)argi("mode", 0);
        rc = ncmpi_create(get_comm(), arg("badpath") ? "/nonexistent-dir/x.nc" : path, mode, info, arg("ncidnull") ? NULL : &ncid);
    } else {
        mode = argi("write", 0) ? NC_WRITE : NC_NOWRITE;
        if (arg("mode")) mode = (int)argi("mode", 0);
        rc = ncmpi_open(get_comm(), path, mode, info, &ncid);
    }
    if (info != MPI_INFO_NULL) PMPI_Info_free(&info);
    if (rc == NC_NOERR || ncid != -4242) { F[f] = ncid; }
    OUT(" rc=%d ncid=%d", rc, ncid);
}

static void op_put_att(void)
{
    int ncid = get_ncid(), varid = (int)argi("v", NC_GLOBAL), xt = xt_parse(arg("xtype")), mem, rc; long n = (long)argi("n", 0);
    char *name = decode_name(arg("name")); arena_t a;
    mem = arg("mem") ? mt_parse(arg("mem")) : mt_of_xtype(xt);
    arena_make(&a, mem, n, NULL, 0, NULL, NULL);
    arena_fill(&a, arg("vals"), argi("tag", 1), argi("scale", 1));
    if (arg("api") && !strcmp(arg("api"), "flex")) rc = ncmpi_put_att(ncid, varid, name, xt, n, arena_buf(&a));
    else switch (mem) {
        case M_TEXT: rc = ncmpi_put_att_text(ncid, varid, name, n, arena_buf(&a)); break;
        case M_SCHAR: rc = ncmpi_put_att_schar(ncid, varid, name, xt, n, arena_buf(&a)); break;
        case M_UCHAR: rc = ncmpi_put_att_uchar(ncid, varid, name, xt, n, arena_buf(&a)); break;
        case M_SHORT: rc = ncmpi_put_att_short(ncid, varid, name, xt, n, arena_buf(&a)); break;
        case M_INT: rc = ncmpi_put_att_int(ncid, varid, name, xt, n, arena_buf(&a)); break;
        case M_LONG: rc = ncmpi_put_att_long(ncid, varid, name, xt, n, arena_buf(&a)); break;
        case M_FLOAT: rc = ncmpi_put_att_float(ncid, varid, name, xt, n, arena_buf(&a)); break;
        case M_DOUBLE: rc = ncmpi_put_att_double(ncid, varid, name, xt, n, arena_buf(&a)); break;
        case M_USHORT: rc = ncmpi_put_att_ushort(ncid, varid, name, xt, n, arena_buf(&a)); break;
        case M_UINT: rc = ncmpi_put_att_uint(ncid, varid, name, xt, n, arena_buf(&a)); break;
        case M_LONGLONG: rc = ncmpi_put_att_longlong(ncid, varid, name, xt, n, arena_buf(&a)); break;
        default: rc = ncmpi_put_att_ulonglong(ncid, varid, name, xt, n, arena_buf(&a)); break;
    }
    OUT(" rc=%d", rc);
    arena_free(&a); free(name);
}

static void op_get_att(void)
{
    int ncid = get_ncid(), varid = (int)argi("v", NC_GLOBAL), xt = 0, mem, rc; MPI_Offset len = 0;
    char *name = decode_name(arg("name")); arena_t a;
    rc = ncmpi_inq_att(ncid, varid, name, &xt, &len);
    if (rc != NC_NOERR) { len = argi("n", 1); xt = NC_INT; }
    mem = arg("mem") ? mt_parse(arg("mem")) : mt_of_xtype(xt);
    arena_make(&a, mem, (long)len, NULL, 0, NULL, NULL);
    a.isget = 1;
    if (!arg("mem")) rc = ncmpi_get_att(ncid, varid, name, arena_buf(&a));
    else switch (mem) {
        case M_TEXT: rc = ncmpi_get_att_text(ncid, varid, name, arena_buf(&a)); break;
        case M_SCHAR: rc = ncmpi_get_att_schar(ncid, varid, name, arena_buf(&a)); break;
        case M_UCHAR: rc = ncmpi_get_att_uchar(ncid, varid, name, arena_buf(&a)); break;
        case M_SHORT: rc = ncmpi_get_att_short(ncid, varid, name, arena_buf(&a)); break;
        case M_INT: rc = ncmpi_get_att_int(ncid, varid, name, arena_buf(&a)); break;
        case M_LONG: rc = ncmpi_get_att_long(ncid, varid, name, arena_buf(&a)); break;
        case M_FLOAT: rc = ncmpi_get_att_float(ncid, varid, name, arena_buf(&a)); break;
        case M_DOUBLE: rc = ncmpi_get_att_double(ncid, varid, name, arena_buf(&a)); break;
        case M_USHORT: rc = ncmpi_get_att_ushort(ncid, varid, name, arena_buf(&a)); break;
        case M_UINT: rc = ncmpi_get_att_uint(ncid, varid, name, arena_buf(&a)); break;
        case M_LONGLONG: rc = ncmpi_get_att_longlong(ncid, varid, name, arena_buf(&a)); break;
        default: rc = ncmpi_get_att_ulonglong(ncid, varid, name, arena_buf(&a)); break;
    }
    OUT(" rc=%d xtype=%d len=%lld guard=%d", rc, xt, (long long)len, arena_guard_bad(&a));
    arena_print_vals(g_log, &a);
    arena_free(&a); free(name);
}

static void json_att(int ncid, int varid, int k)
{
    char name[NC_MAX_NAME + 8] = ""; int xt = 0, rc, id = -9, i; MPI_Offset len = 0;
    rc = ncmpi_inq_attname(ncid, varid, k, name);
    OUT("{\"rc\":%d,\"n\":\"", rc); hexname(g_log, name); OUT("\"");
    if (rc == NC_NOERR) {
        rc = ncmpi_inq_att(ncid, varid, name, &xt, &len);
        ncmpi_inq_attid(ncid, varid, name, &id);
        OUT(",\"rc2\":%d,\"t\":%d,\"len\":%lld,\"id\":%d", rc, xt, (long long)len, id);
        if (rc == NC_NOERR && len < 4000000 && xt >= 1 && xt <= 11) {
            int mem = mt_of_xtype(xt), sz = mt_size[mem]; unsigned char *b = malloc((size_t)len * sz + 8);
            rc = ncmpi_get_att(ncid, varid, name, b);
            OUT(",\"rc3\":%d,\"v\":", rc);
            if (xt == NC_CHAR) { OUT("\""); hexbytes(g_log, b, (size_t)len); OUT("\""); }
            else { OUT("["); for (i = 0; i < len; i++) { if (i) OUT(","); if (mem == M_FLOAT || mem == M_DOUBLE) OUT("\""); mt_print(g_log, mem, b + (size_t)i * sz); if (mem == M_FLOAT || mem == M_DOUBLE) OUT("\""); } OUT("]"); }
            free(b);
        }
    }
    OUT("}");
}

static void op_sweep(void)
{
    int ncid = get_ncid(), nd = 0, nv = 0, ng = 0, un = -9, fmt = 0, rc, i, k, nreqs = -1, nrec = -1, nfix = -1;
    MPI_Offset hs = -1, he = -1, rs = -1, bu = -1, bs = -1;
    rc = ncmpi_inq(ncid, &nd, &nv, &ng, &un);
    OUT(" rc=%d json={\"rc\":%d", rc, rc);
    if (rc != NC_NOERR) { OUT("}"); return; }
    ncmpi_inq_format(ncid, &fmt); ncmpi_inq_header_size(ncid, &hs); ncmpi_inq_header_extent(ncid, &he); ncmpi_inq_recsize(ncid, &rs);
    ncmpi_inq_nreqs(ncid, &nreqs); ncmpi_inq_num_rec_vars(ncid, &nrec); ncmpi_inq_num_fix_vars(ncid, &nfix);
    { int e1 = ncmpi_inq_buffer_usage(ncid, &bu), e2 = ncmpi_inq_buffer_size(ncid, &bs); if (e1) bu = e1; if (e2) bs = e2; }
    OUT(",\"nd\":%d,\"nv\":%d,\"ng\":%d,\"unlim\":%d,\"fmt\":%d,\"hsize\":%lld,\"hext\":%lld,\"recsize\":%lld,\"nreqs\":%d,\"nrecv\":%d,\"nfixv\":%d,\"busage\":%lld,\"bsize\":%lld",
        nd, nv, ng, un, fmt, (long long)hs, (long long)he, (long long)rs, nreqs, nrec, nfix, (long long)bu, (long long)bs);
    OUT(",\"dims\":[");
    for (i = 0; i < nd; i++) {
        char name[NC_MAX_NAME + 8] = ""; MPI_Offset len = -1; int id = -9, rc2;
        rc2 = ncmpi_inq_dim(ncid, i, name, &len); ncmpi_inq_dimid(ncid, name, &id);
        OUT("%s{\"rc\":%d,\"n\":\"", i ? "," : "", rc2); hexname(g_log, name); OUT("\",\"len\":%lld,\"id\":%d}", (long long)len, id);
    }
    OUT("],\"gatts\":[");
    for (k = 0; k < ng; k++) { if (k) OUT(","); json_att(ncid, NC_GLOBAL, k); }
    OUT("],\"vars\":[");
    for (i = 0; i < nv; i++) {
        char name[NC_MAX_NAME + 8] = ""; int xt = 0, vnd = 0, dimids[64], na = 0, id = -9, rc2, nofill = -1, j; MPI_Offset off = -1;
        unsigned char fv[16];
        rc2 = ncmpi_inq_var(ncid, i, name, &xt, &vnd, NULL, &na);
        if (rc2 == NC_NOERR && vnd <= 64) ncmpi_inq_vardimid(ncid, i, dimids); else vnd = 0;
        ncmpi_inq_varid(ncid, name, &id); ncmpi_inq_varoffset(ncid, i, &off);
        memset(fv, 0, sizeof fv);
        { int e = ncmpi_inq_var_fill(ncid, i, &nofill, fv); if (e) nofill = e; }
        OUT("%s{\"rc\":%d,\"n\":\"", i ? "," : "", rc2); hexname(g_log, name);
        OUT("\",\"t\":%d,\"id\":%d,\"off\":%lld,\"nofill\":%d,\"fill\":\"", xt, id, (long long)off, nofill);
        if (xt >= 1 && xt <= 11) { int mem = mt_of_xtype(xt); mt_print(g_log, mem, fv); }
        OUT("\",\"dimids\":[");
        for (j = 0; j < vnd; j++) OUT("%s%d", j ? "," : "", dimids[j]);
        OUT("],\"atts\":[");
        for (k = 0; k < na; k++) { if (k) OUT(","); json_att(ncid, i, k); }
        OUT("]}");
    }
    OUT("]");
    if (un >= 0) { MPI_Offset l = -1; ncmpi_inq_dimlen(ncid, un, &l); OUT(",\"numrecs\":%lld", (long long)l); }
    /* mode fingerprint: zero-request wait / wait_all answer differently in define, collective and independent mode */
    if (!arg("nomfp")) {
        int a = ncmpi_wait(ncid, 0, NULL, NULL), b = ncmpi_wait_all(ncid, 0, NULL, NULL), c, d; MPI_Offset z[64]; char dummy[8];
        memset(z, 0, sizeof z);
        /* the same question asked of the dispatcher layer (it keeps its own copy of the mode): zero-length flexible reads of variable 0 */
        c = ncmpi_get_vara(ncid, 0, z, z, dummy, 0, MPI_BYTE); d = ncmpi_get_vara_all(ncid, 0, z, z, dummy, 0, MPI_BYTE);
        OUT(",\"mfp\":[%d,%d],\"mfp2\":[%d,%d]", a, b, c, d);
    }
    OUT("}");
}

/* snap path=... [max=N] [ranges=off:len,off:len] : raw bytes of the file as the OS sees them */
static void op_snap(void)
{
    char path[700]; struct stat sb; int fd; long long max = argi("max", 1 << 20);
    path_of(path, sizeof path, "path");
    if (stat(path, &sb) != 0) { OUT(" rc=-1 errno=%d", errno); return; }
    fd = open(path, O_RDONLY);
    if (fd < 0) { OUT(" rc=-1 errno=%d", errno); return; }
    OUT(" rc=0 size=%lld link=%d", (long long)sb.st_size, (int)0);
    if (arg("ranges")) {
        long long r[64]; int n = arglist("ranges", r, 64), i;   /* off,len,off,len */
        OUT(" hex=");
        for (i = 0; i + 1 < n; i += 2) {
            unsigned char *b = calloc(1, (size_t)r[i + 1] + 1); ssize_t g = pread(fd, b, (size_t)r[i + 1], (off_t)r[i]);
            if (i) OUT("|"); if (g > 0) hexbytes(g_log, b, (size_t)g); free(b);
        }
    } else if (sb.st_size <= max) {
        unsigned char *b = malloc((size_t)sb.st_size + 1); ssize_t g = pread(fd, b, (size_t)sb.st_size, 0);
        OUT(" hex="); if (g > 0) hexbytes(g_log, b, (size_t)g); free(b);
    } else OUT(" hex=TOOBIG");
    close(fd);
}

/* mkfile path=.. hex=... [size=N] : write raw bytes (rank that executes it); size extends sparsely */
static void op_mkfile(void)
{
    char path[700]; const char *h = arg("hex"); int fd; size_t n, i; unsigned char *b;
    path_of(path, sizeof path, "path");
    if (arg("symlink")) { char tgt[700]; path_of(tgt, sizeof tgt, "symlink"); unlink(path); OUT(" rc=%d", symlink(tgt, path)); return; }
    fd = open(path, O_WRONLY | O_CREAT | O_TRUNC, 0644);
    if (fd < 0) { OUT(" rc=-1 errno=%d", errno); return; }
    if (h) {
        n = strlen(h) / 2; b = malloc(n + 1);
        for (i = 0; i < n; i++) { unsigned v; sscanf(h + 2 * i, "%2x", &v); b[i] = (unsigned char)v; }
        if (write(fd, b, n) != (ssize_t)n) { OUT(" rc=-2"); close(fd); free(b); return; }
        free(b);
    }
    if (arg("fillbyte")) { long long sz = argi("size", 0), k; unsigned char fb = (unsigned char)argi("fillbyte", 0xAA); for (k = 0; k < sz; k++) if (write(fd, &fb, 1) != 1) break; }
    else if (arg("size")) { if (ftruncate(fd, (off_t)argi("size", 0)) != 0) { OUT(" rc=-3"); close(fd); return; } }
    close(fd);
    OUT(" rc=0");
}

static void op_mkdir(void)
{
    char path[700]; path_of(path, sizeof path, "path");
    OUT(" rc=%d", mkdir(path, 0755) == 0 || errno == EEXIST ? 0 : -1);
}

/* lsdir path=bb : every entry of a directory created by the case */
static void op_lsdir(void)
{
    char path[700]; DIR *d; struct dirent *e; int first = 1;
    path_of(path, sizeof path, "path");
    d = opendir(path);
    if (!d) { OUT(" rc=-1 errno=%d", errno); return; }
    OUT(" rc=0 names=");
    while ((e = readdir(d))) { if (e->d_name[0] == '.') continue; OUT("%s%s", first ? "" : ",", e->d_name); first = 0; }
    closedir(d);
}

static void op_ls(void)
{
    char dir[700]; DIR *d; struct dirent *e; int first = 1; char pfx[64];
    const char *sub = arg("dir");
    if (sub && sub[0] == '/') snprintf(dir, sizeof dir, "%s", sub); else snprintf(dir, sizeof dir, "%s%s%s", g_workdir, sub ? "/" : "", sub ? sub : "");
    snprintf(pfx, sizeof pfx, "c%d_", g_case);
    d = opendir(dir);
    if (!d) { OUT(" rc=-1 errno=%d", errno); return; }
    OUT(" rc=0 names=");
    while ((e = readdir(d))) {
        if (e->d_name[0] == '.') continue;
        if (strncmp(e->d_name, pfx, strlen(pfx))) continue;
        OUT("%s%s", first ? "" : ",", e->d_name + strlen(pfx)); first = 0;
    }
    closedir(d);
}

static long long g_led0[6];
static void ledger_mark(void)
{
    MPI_Offset msz = 0; ncmpi_inq_malloc_size(&msz);
    g_led0[0] = msz; g_led0[1] = shim_led_types; g_led0[2] = shim_led_comms; g_led0[3] = shim_led_infos; g_led0[4] = shim_led_files; g_led0[5] = shim_led_reqs;
}
static void op_ledger(void)
{
    MPI_Offset msz = -1; int nopen = -1, rc;
    rc = ncmpi_inq_malloc_size(&msz);
    ncmpi_inq_files_opened(&nopen, NULL);
    /* relative to the start of the case, so that a leak is attributed to the case that caused it */
    OUT(" rc=%d malloc=%lld nopen=%d types=%ld comms=%ld infos=%ld files=%ld reqs=%ld", rc, (long long)(msz - g_led0[0]), nopen,
        shim_led_types - g_led0[1], shim_led_comms - g_led0[2], shim_led_infos - g_led0[3], shim_led_files - g_led0[4], shim_led_reqs - g_led0[5]);
}

/* numrecs field read straight from the file */
static void op_disk_numrecs(void)
{
    char path[700]; unsigned char b[12]; int fd; ssize_t g; unsigned long long v = 0; int i, w;
    path_of(path, sizeof path, "path");
    fd = open(path, O_RDONLY); if (fd < 0) { OUT(" rc=-1"); return; }
    g = pread(fd, b, 12, 0); close(fd);
    if (g < 8) { OUT(" rc=-2"); return; }
    w = (b[3] == 5) ? 8 : 4;
    for (i = 0; i < w; i++) v = (v << 8) | b[4 + i];
    OUT(" rc=0 numrecs=%llu", v);
}

static void op_inq_file_info(void)
{
    int ncid = get_ncid(), rc, n = 0, i, flag; MPI_Info info = MPI_INFO_NULL; char key[MPI_MAX_INFO_KEY + 1], val[MPI_MAX_INFO_VAL + 1];
    rc = ncmpi_inq_file_info(ncid, &info);
    OUT(" rc=%d", rc);
    if (rc != NC_NOERR || info == MPI_INFO_NULL) return;
    PMPI_Info_get_nkeys(info, &n);
    OUT(" info=");
    for (i = 0; i < n; i++) {
        PMPI_Info_get_nthkey(info, i, key); PMPI_Info_get(info, key, MPI_MAX_INFO_VAL, val, &flag);
        if (strncmp(key, "nc_", 3) && strncmp(key, "pnetcdf", 7) && strncmp(key, "romio_no_indep", 14)) continue;
        OUT("%s=", key); hexname(g_log, val); OUT(";");
    }
    MPI_Info_free(&info);   /* through the shim: balances the ledger */
}
