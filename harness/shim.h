#ifndef VERIF_SHIM_H
#define VERIF_SHIM_H
#include <stdarg.h>
extern int shim_inj_view;
extern int shim_inj, shim_fault_n, shim_fault_class, shim_fault_hit, shim_trace_on, shim_trace_len;
extern char shim_fault_where[48];
extern char shim_trace[8192];
extern long shim_led_types, shim_led_comms, shim_led_infos, shim_led_files, shim_led_reqs;
extern long shim_ncoll, shim_nindep;
extern int shim_race_on;
void shim_race_case_reset(void);
void shim_race_flush(void);
void shim_init(void);
void shim_case_reset(int fault_n, int fault_class);
#endif
