/* vx: the executor.  mpirun -np N vx job.txt outdir workdir
 * Executes a job (list of cases; a case is a list of per-rank ops) against the real library and
 * logs one result line per (case, line, rank).  Nothing is judged here.  DESIGN.md 3.2 / Appendix B. */
#include <sys/resource.h>
#include <sys/time.h>
#include "vx_core.h"
#include "vx_data.h"
#include "vx_meta.h"

static void flush_log(void) { if (g_log) fflush(g_log); }
static double g_t0; static long g_rss0;
static double now_s(void) { struct timeval tv; gettimeofday(&tv, NULL); return tv.tv_sec + tv.tv_usec * 1e-6; }
static long rss_kb(void) { struct rusage ru; getrusage(RUSAGE_SELF, &ru); return ru.ru_maxrss; }

static void on_signal(int sig)
{
    char b[160]; int n;
    n = snprintf(b, sizeof b, "\nX %d %d CRASH sig=%d\n", g_case, g_line, sig);
    if (g_log) { fflush(g_log); if (write(fileno(g_log), b, n) < 0) {} }
    _exit(50);
}
static void on_alarm(int sig)
{
    char b[160]; int n;
    (void)sig;
    n = snprintf(b, sizeof b, "\nX %d %d CASE-TIME-LIMIT exceeded\n", g_case, g_line);
    if (g_log) { fflush(g_log); if (write(fileno(g_log), b, n) < 0) {} }
    _exit(51);
}
static void on_verdict(const char *msg)
{
    if (g_log) { fprintf(g_log, "\nX %d %d VERDICT %s\n", g_case, g_line, msg); fflush(g_log); }
}

static void name2(const char *k, char **out) { *out = decode_name(arg(k)); }

static int in_rankset(const char *rs)
{
    if (!strcmp(rs, "*") || !strcmp(rs, "+")) return 1;
    while (*rs) { char *e; long r = strtol(rs, &e, 10); if (r == g_rank) return 1; if (*e == ',') e++; if (e == rs) break; rs = e; }
    return 0;
}

static void cleanup_case(void)
{
    int i, num = 0, ids[1100];
    /* close whatever the case left open so that the next case starts from a clean library */
    if (ncmpi_inq_files_opened(&num, ids) == NC_NOERR && num > 0) {
        g_line = 9999; board_set_op(9999);
        for (i = num - 1; i >= 0; i--) { int e = ncmpi_close(ids[i]); if (e != NC_NOERR && e != NC_EPENDING) ncmpi_abort(ids[i]); }
    }
    for (i = 0; i < NREQ; i++) { arena_free(&Q[i].a); Q[i].used = 0; Q[i].id = 0; }
    unsetenv("PNETCDF_HINTS"); unsetenv("PNETCDF_SAFE_MODE"); unsetenv("PNETCDF_RELAX_COORD_BOUND"); unsetenv("PNETCDF_VERBOSE_DEBUG_MODE");
    unsetenv("PNETCDF_VERIF_HDR_CHUNK"); unsetenv("PNETCDF_VERIF_MOVE_UNIT");
    { int old; ncmpi_set_default_format(NC_FORMAT_CLASSIC, &old); }
}

static void do_op(const char *op)
{
    int rc;
    if (!strcmp(op, "create")) op_create_open(1);
    else if (!strcmp(op, "open")) op_create_open(0);
    else if (!strcmp(op, "close")) { int id = get_ncid(); rc = ncmpi_close(id); OUT(" rc=%d", rc); }
    else if (!strcmp(op, "abort")) { rc = ncmpi_abort(get_ncid()); OUT(" rc=%d", rc); }
    else if (!strcmp(op, "redef")) { rc = ncmpi_redef(get_ncid()); OUT(" rc=%d", rc); }
    /* inside enddef the file traffic is the library's own (header, data movement, fill): its accesses are checked for
     * cross-rank conflicts that no synchronising collective orders (board.c, race check) */
    else if (!strcmp(op, "enddef")) { shim_race_on = 1; rc = ncmpi_enddef(get_ncid()); if (g_np > 1 && g_lockstep) board_barrier(3000000 + g_line); shim_race_flush(); shim_race_on = 0; OUT(" rc=%d", rc); }
    else if (!strcmp(op, "_enddef")) { shim_race_on = 1; rc = ncmpi__enddef(get_ncid(), argi("h_minfree", 0), argi("v_align", 0), argi("v_minfree", 0), argi("r_align", 0)); if (g_np > 1 && g_lockstep) board_barrier(3000000 + g_line); shim_race_flush(); shim_race_on = 0; OUT(" rc=%d", rc); }
    else if (!strcmp(op, "sync")) { rc = ncmpi_sync(get_ncid()); OUT(" rc=%d", rc); }
    else if (!strcmp(op, "flush")) { rc = ncmpi_flush(get_ncid()); OUT(" rc=%d", rc); }
    else if (!strcmp(op, "sync_numrecs")) { rc = ncmpi_sync_numrecs(get_ncid()); OUT(" rc=%d", rc); }
    else if (!strcmp(op, "begin_indep")) { rc = ncmpi_begin_indep_data(get_ncid()); OUT(" rc=%d", rc); }
    else if (!strcmp(op, "end_indep")) { rc = ncmpi_end_indep_data(get_ncid()); OUT(" rc=%d", rc); }
    else if (!strcmp(op, "set_fill")) { int old = -9; rc = ncmpi_set_fill(get_ncid(), argi("mode", 0) ? NC_FILL : NC_NOFILL, &old); OUT(" rc=%d old=%d", rc, old == NC_FILL ? 1 : old == NC_NOFILL ? 0 : old); }
    else if (!strcmp(op, "set_default_format")) { int old = -9; rc = ncmpi_set_default_format((int)argi("fmt", 1), &old); OUT(" rc=%d old=%d", rc, old); }
    else if (!strcmp(op, "delete")) { char p[700]; path_of(p, sizeof p, "path"); rc = ncmpi_delete(p, MPI_INFO_NULL); OUT(" rc=%d", rc); }
    else if (!strcmp(op, "def_dim")) { char *n; int id = -9; name2("name", &n); rc = ncmpi_def_dim(get_ncid(), n, arg("unlim") ? NC_UNLIMITED : (MPI_Offset)argi("len", 1), &id); OUT(" rc=%d id=%d", rc, id); free(n); }
    else if (!strcmp(op, "def_var")) {
        char *n; int id = -9, dimids[MAXDIMS * 4]; long long d[MAXDIMS * 4]; int nd = arglist("dims", d, MAXDIMS * 4), i;
        if (nd < 0) nd = 0; for (i = 0; i < nd; i++) dimids[i] = (int)d[i];
        if (arg("ndims")) nd = (int)argi("ndims", nd);
        name2("name", &n); rc = ncmpi_def_var(get_ncid(), n, xt_parse(arg("xtype")), nd, dimids, &id); OUT(" rc=%d id=%d", rc, id); free(n);
    }
    else if (!strcmp(op, "def_var_fill")) {
        unsigned char fv[16]; int xt = xt_parse(arg("xtype")); const char *v = arg("val");
        if (v) mt_parse_val(mt_of_xtype(xt), v, fv);
        rc = ncmpi_def_var_fill(get_ncid(), (int)argi("v", 0), (int)argi("nofill", 0), v ? fv : NULL); OUT(" rc=%d", rc);
    }
    else if (!strcmp(op, "put_att")) op_put_att();
    else if (!strcmp(op, "get_att")) op_get_att();
    else if (!strcmp(op, "del_att")) { char *n; name2("name", &n); rc = ncmpi_del_att(get_ncid(), (int)argi("v", NC_GLOBAL), n); OUT(" rc=%d", rc); free(n); }
    else if (!strcmp(op, "rename_dim")) { char *n; name2("name", &n); rc = ncmpi_rename_dim(get_ncid(), (int)argi("d", 0), n); OUT(" rc=%d", rc); free(n); }
    else if (!strcmp(op, "rename_var")) { char *n; name2("name", &n); rc = ncmpi_rename_var(get_ncid(), (int)argi("v", 0), n); OUT(" rc=%d", rc); free(n); }
    else if (!strcmp(op, "rename_att")) { char *n, *m; name2("name", &n); name2("newname", &m); rc = ncmpi_rename_att(get_ncid(), (int)argi("v", NC_GLOBAL), n, m); OUT(" rc=%d", rc); free(n); free(m); }
    else if (!strcmp(op, "copy_att")) { char *n; name2("name", &n); rc = ncmpi_copy_att(get_ncid(), (int)argi("v", NC_GLOBAL), n, F[argi("f2", 0)], (int)argi("v2", NC_GLOBAL)); OUT(" rc=%d", rc); free(n); }
    else if (!strcmp(op, "inq_dimlen")) { MPI_Offset l = -9; rc = ncmpi_inq_dimlen(get_ncid(), (int)argi("d", 0), &l); OUT(" rc=%d len=%lld", rc, (long long)l); }
    else if (!strcmp(op, "inq_unlimlen")) { int u = -9; MPI_Offset l = -9; rc = ncmpi_inq_unlimdim(get_ncid(), &u); if (rc == NC_NOERR && u >= 0) rc = ncmpi_inq_dimlen(get_ncid(), u, &l); OUT(" rc=%d len=%lld", rc, (long long)l); }
    else if (!strcmp(op, "inq_nreqs")) { int n = -9; rc = ncmpi_inq_nreqs(get_ncid(), &n); OUT(" rc=%d n=%d", rc, n); }
    else if (!strcmp(op, "inq_buffer_usage")) { MPI_Offset n = -9; rc = ncmpi_inq_buffer_usage(get_ncid(), &n); OUT(" rc=%d n=%lld", rc, (long long)n); }
    else if (!strcmp(op, "inq_buffer_size")) { MPI_Offset n = -9; rc = ncmpi_inq_buffer_size(get_ncid(), &n); OUT(" rc=%d n=%lld", rc, (long long)n); }
    else if (!strcmp(op, "inq_format")) { int n = -9; rc = ncmpi_inq_format(get_ncid(), &n); OUT(" rc=%d n=%d", rc, n); }
    else if (!strcmp(op, "inq_file_format")) { int n = -9; char p[700]; path_of(p, sizeof p, "path"); rc = ncmpi_inq_file_format(p, &n); OUT(" rc=%d n=%d", rc, n); }
    else if (!strcmp(op, "inq_varoffset")) { MPI_Offset n = -9; rc = ncmpi_inq_varoffset(get_ncid(), (int)argi("v", 0), &n); OUT(" rc=%d n=%lld", rc, (long long)n); }
    else if (!strcmp(op, "inq_file_info")) op_inq_file_info();
    else if (!strcmp(op, "inq_files_opened")) { int n = -9; rc = ncmpi_inq_files_opened(&n, NULL); OUT(" rc=%d n=%d", rc, n); }
    else if (!strcmp(op, "inq_path")) { int n = -9; char p[1024] = ""; rc = ncmpi_inq_path(get_ncid(), &n, p); OUT(" rc=%d n=%d", rc, n); }
    else if (!strcmp(op, "sweep")) op_sweep();
    else if (!strcmp(op, "put")) op_putget(0);
    else if (!strcmp(op, "get")) op_putget(1);
    else if (!strcmp(op, "wait")) op_wait(0);
    else if (!strcmp(op, "cancel")) op_wait(1);
    else if (!strcmp(op, "rbuf")) op_rbuf();
    else if (!strcmp(op, "poke")) op_poke();
    else if (!strcmp(op, "buffer_attach")) { rc = ncmpi_buffer_attach(get_ncid(), (MPI_Offset)argi("size", 0)); OUT(" rc=%d", rc); }
    else if (!strcmp(op, "buffer_detach")) { rc = ncmpi_buffer_detach(get_ncid()); OUT(" rc=%d", rc); }
    else if (!strcmp(op, "fill_var_rec")) { rc = ncmpi_fill_var_rec(get_ncid(), (int)argi("v", 0), (MPI_Offset)argi("rec", 0)); OUT(" rc=%d", rc); }
    else if (!strcmp(op, "snap")) op_snap();
    else if (!strcmp(op, "mkfile")) op_mkfile();
    else if (!strcmp(op, "unlink")) { char p[700]; path_of(p, sizeof p, "path"); rc = unlink(p); OUT(" rc=%d", rc); }
    else if (!strcmp(op, "ls")) op_ls();
    else if (!strcmp(op, "mkdir")) op_mkdir();
    else if (!strcmp(op, "lsdir")) op_lsdir();
    else if (!strcmp(op, "fdcount")) { int n = 0; DIR *d = opendir("/proc/self/fd"); struct dirent *e; if (d) { while ((e = readdir(d))) if (e->d_name[0] != '.') n++; closedir(d); n--; } OUT(" rc=0 n=%d", n); }   /* open POSIX descriptors of this process (minus the directory handle itself) */
    else if (!strcmp(op, "ledger")) op_ledger();
    else if (!strcmp(op, "malloc_list")) { fflush(stdout); rc = ncmpi_inq_malloc_list(); fflush(stdout); OUT(" rc=%d", rc); }
    else if (!strcmp(op, "disk_numrecs")) op_disk_numrecs();
    else if (!strcmp(op, "barrier")) { OUT(" rc=0"); }
    else if (!strcmp(op, "env")) {
        int i; for (i = 2; i < ntok; i++) { char *e = strchr(tok[i], '='); if (!e) continue; *e = 0; if (e[1]) setenv(tok[i], e + 1, 1); else unsetenv(tok[i]); *e = '='; }
        OUT(" rc=0");
    }
    else if (!strcmp(op, "strerror")) { const char *s = ncmpi_strerror((int)argi("code", 0)); OUT(" rc=0 len=%d", (int)strlen(s ? s : "")); }
    else { fprintf(stderr, "vx: unknown op %s\n", op); exit(9); }
}

int main(int argc, char **argv)
{
    FILE *job; char *line = NULL; size_t cap = 0; ssize_t len; char path[800]; int in_case = 0, trace_on = 0, lineno = 0;
    struct sigaction sa;
    if (argc < 4) { fprintf(stderr, "usage: vx job outdir workdir\n"); return 9; }
    MPI_Init(&argc, &argv);
    PMPI_Comm_rank(MPI_COMM_WORLD, &g_rank); PMPI_Comm_size(MPI_COMM_WORLD, &g_np);
    snprintf(g_outdir, sizeof g_outdir, "%s", argv[2]); snprintf(g_workdir, sizeof g_workdir, "%s", argv[3]);
    snprintf(path, sizeof path, "%s/r%d.log", g_outdir, g_rank);
    g_log = fopen(path, "w"); if (!g_log) { perror(path); return 9; }
    setvbuf(g_log, NULL, _IOFBF, 1 << 16);
    snprintf(path, sizeof path, "%s/board", g_outdir);
    if (g_rank == 0) unlink(path);
    PMPI_Barrier(MPI_COMM_WORLD);
    board_init(path, g_rank, g_np);
    board_verdict_hook = on_verdict;
    shim_init();
    memset(&sa, 0, sizeof sa); sa.sa_handler = on_signal;
    sigaction(SIGSEGV, &sa, NULL); sigaction(SIGBUS, &sa, NULL); sigaction(SIGFPE, &sa, NULL); sigaction(SIGABRT, &sa, NULL); sigaction(SIGILL, &sa, NULL);
    job = fopen(argv[1], "r"); if (!job) { perror(argv[1]); return 9; }

    while ((len = getline(&line, &cap, job)) > 0) {
        char *p, *save;
        lineno++;
        if (len && line[len - 1] == '\n') line[--len] = 0;
        if (!len || line[0] == '#') continue;
        ntok = 0;
        for (p = strtok_r(line, " \t", &save); p && ntok < MAXTOK; p = strtok_r(NULL, " \t", &save)) tok[ntok++] = p;
        if (ntok == 0) continue;
        if (!strcmp(tok[0], "case")) {
            int prefix[BD_MAXPREFIX], npre = 0, sched = 1, fr = -1, fn = 0, fc = 0; long long pl[BD_MAXPREFIX]; const char *v; int i;
            g_case++; g_line = 0; in_case = 1;
            snprintf(g_casename, sizeof g_casename, "%s", ntok > 1 ? tok[1] : "?");
            /* tok[1] is the name; arg() starts scanning at tok[2] */
            if ((v = arg("sched"))) sched = strcmp(v, "off") != 0;
            npre = arglist("prefix", pl, BD_MAXPREFIX); if (npre < 0) npre = 0; for (i = 0; i < npre; i++) prefix[i] = (int)pl[i];
            if ((v = arg("fault"))) sscanf(v, "%d:%d:%d", &fr, &fn, &fc);
            trace_on = (int)argi("trace", 0);
            /* optional per-case CPU/wall limit (seconds) and address-space limit (MiB): malformed-input cases must fail promptly */
            alarm(0);
            if (arg("tlimit")) { struct sigaction sa2; memset(&sa2, 0, sizeof sa2); sa2.sa_handler = on_alarm; sigaction(SIGALRM, &sa2, NULL); alarm((unsigned)argi("tlimit", 0)); }
            flush_log();
            PMPI_Barrier(MPI_COMM_WORLD);
            if (g_rank == 0) {
                FILE *pf; snprintf(path, sizeof path, "%s/progress", g_outdir); pf = fopen(path, "w"); if (pf) { fprintf(pf, "%d %s\n", g_case, g_casename); fclose(pf); }
                board_case_reset(sched, npre, prefix);
            }
            PMPI_Barrier(MPI_COMM_WORLD);
            shim_case_reset(fr == g_rank ? fn : 0, fc); shim_inj_view = (int)argi("injview", 0); shim_trace_on = trace_on; shim_race_case_reset();
            ledger_mark(); g_t0 = now_s(); g_rss0 = rss_kb();
            OUT("B %d %s\n", g_case, g_casename);
            continue;
        }
        if (!strcmp(tok[0], "end")) {
            if (in_case) {
                board_barrier(1000000 + lineno);
                cleanup_case();
                board_barrier(2000000 + lineno);
                alarm(0);
                OUT("E %d inj=%d fault_hit=%d where=%s ncoll=%ld nindep=%ld ms=%.1f rss_kb=%ld", g_case, shim_inj, shim_fault_hit, shim_fault_where[0] ? shim_fault_where : "-", shim_ncoll, shim_nindep, (now_s() - g_t0) * 1000.0, rss_kb() - g_rss0);
                if (board_active() && g_rank == 0) {
                    board_t *B = board_ptr(); int i, j;
                    OUT(" sched=");
                    for (i = 0; i < B->nlog; i++) {
                        OUT("%s%d/%x/", i ? ";" : "", B->log[i].choice, B->log[i].enabled);
                        for (j = 0; j < g_np; j++) if (B->log[i].enabled & (1 << j)) OUT("%d:%d:%ld:%ld,", j, B->log[i].cls[j], B->log[i].lo[j], B->log[i].hi[j]);
                    }
                }
                OUT("\n"); flush_log();
                in_case = 0;
            }
            continue;
        }
        if (!in_case || ntok < 2) continue;
        g_line++;
        if (!in_rankset(tok[0])) continue;
        g_lockstep = !strcmp(tok[0], "*");
        if (g_lockstep) board_barrier(lineno);
        board_set_op(g_line);
        shim_trace_len = 0; shim_trace[0] = 0;
        {
            int inj0 = shim_inj;
            OUT("R %d %d %s", g_case, g_line, tok[1]);
            do_op(tok[1]);
            if (shim_inj != inj0) OUT(" inj=%d-%d", inj0 + 1, shim_inj);
            if (shim_trace_on && shim_trace_len) OUT(" io=%s", shim_trace);
            OUT("\n");
        }
    }
    flush_log();
    board_done();
    fclose(job);
    PMPI_Barrier(MPI_COMM_WORLD);
    fclose(g_log);
    MPI_Finalize();
    return 0;
}
