#!/usr/bin/env python3
"""prints the prompt for a mutant-writing sub-agent: property text + worktree path only"""
import json, sys
pid = sys.argv[1]; wt = sys.argv[2]
p = next(json.loads(l) for l in open('/verif/properties.jsonl') if json.loads(l)['id'] == pid)
print(f"""You are helping to evaluate a verification effort for PnetCDF (Parallel netCDF, an MPI-IO based library for classic netCDF CDF-1/2/5 files). Your job: write ONE realistic source change (a "seeded defect") to the library that BREAKS the semantic property stated below, while the library still compiles and its existing test suite still passes, and provide a small demonstration program that fails with your change and passes without it.

PROPERTY {p['id']}: {p['title']}
Statement: {p['statement']}
Quantified over: {p['quantifier']['text']}
Why the existing tests cannot settle it: {p['why_tests_cant']}
Relevant source files (hint): {', '.join(p['anchors']['files'])}

WORKSPACE: a scratch git worktree of the repository at {wt} (already configured with ./configure and fully built with make; C library sources are under {wt}/src). Work ONLY inside {wt} (and /tmp/{pid}-demo for the demonstration). Do NOT touch /repo or /verif and do not read anything under /verif. No network is available.

REQUIREMENTS FOR THE CHANGE
1. It must be a plausible programming mistake or a plausible "optimisation"/refactoring slip in the library sources under src/ (drivers/ncmpio, dispatchers, drivers/common, ...), small (a few lines), and must compile without new warnings being necessary.
2. It must violate the property above in a way that needs something SPECIFIC to manifest: a particular interleaving of processes, a fault at a particular point, a multi-step sequence of operations, an unusual input/shape/alignment/type combination, or two cooperating sites that each look fine alone. It must NOT be something ordinary use exposes at once (the existing tests must keep passing).
3. The existing test suite must still pass with the change: after editing, run `cd {wt} && make -j6 > /dev/null 2>&1 && make -k -j6 check > check.out 2>&1; grep -E "^(# (PASS|FAIL|ERROR)|FAIL|ERROR)" check.out` and confirm 0 FAIL / 0 ERROR in every directory (73 PASS in total across the test directories, plus 2 XFAIL). If a test fails, choose a different change.
4. Write a demonstration: a small C program (MPI + pnetcdf API) in /tmp/{pid}-demo/demo.c plus /tmp/{pid}-demo/run.sh that builds it against the library in the worktree (`mpicc demo.c -I{wt}/src/include {wt}/src/libs/.libs/libpnetcdf.a -lm -o demo`) and runs it (use `mpirun -np N --oversubscribe` with env OMPI_ALLOW_RUN_AS_ROOT=1 OMPI_ALLOW_RUN_AS_ROOT_CONFIRM=1 OMPI_MCA_btl_vader_single_copy_mechanism=none; N<=4). run.sh must exit 0 when the property holds and non-zero (or hang -> use `timeout 60`) when it is violated. Verify BOTH: it fails with your change applied, and it passes on the unmodified tree (save your diff first: `git -C {wt} diff > /tmp/{pid}-demo/patch.diff; git -C {wt} apply -R /tmp/{pid}-demo/patch.diff; make -j6; ./run.sh; git -C {wt} apply /tmp/{pid}-demo/patch.diff; make -j6` -- do NOT use `git stash`, the stash is shared between worktrees and other agents work in parallel).
5. Leave the change applied in the worktree (uncommitted) and write the diff to /tmp/{pid}-demo/patch.diff with `git -C {wt} diff > /tmp/{pid}-demo/patch.diff`. Only files under src/ may be modified (generated .c files next to .m4 files are build products: edit the .m4, not the generated .c).

Notes: some source files are generated from .m4 (e.g. src/drivers/ncmpio/ncmpio_getput.m4 -> .c by `make`). To run files with several processes use mpirun as above. The library can be asked to inject nothing; if your defect needs an I/O error to manifest, your demo may interpose MPI-IO functions through the PMPI profiling interface (define MPI_File_write_at_all etc. in demo.c and call PMPI_...).

FINAL ANSWER: report (a) the path of patch.diff, (b) one paragraph: what the change is and exactly what is needed for it to manifest, (c) the observed output of run.sh with and without the change, (d) the make check summary with the change. Be honest if you could not satisfy some requirement.""")
