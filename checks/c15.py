"""C15 Out-of-range requests are rejected and writes stay inside their target — exhaustive tuples, byte-level file diff."""
import itertools, sys, os
sys.path.insert(0, os.path.dirname(os.path.dirname(os.path.abspath(__file__))))
from engine import build, runner, cdf
from engine.common import Check
from engine.runner import Case
from engine.script import first_frame
from engine.model import data as D

NREC = 2


def expected(shape, isrec, start, count, stride, isread, strict, numrecs, has_stride):
    """acceptable return codes for one request (documented precedence; undocumented orders accept either)"""
    nd = len(shape)
    if nd == 0: return {0}
    # 1. coordinates
    for d in range(nd):
        L = shape[d]
        if isrec and d == 0:
            if start[0] < 0: return {D.NC_EINVALCOORDS}
            if isread:
                L = numrecs
                c = count[0]
                if L == 0 and c > 0: return {D.NC_EINVALCOORDS}
            else: continue
        s = start[d]; c = count[d]
        if s < 0: return {D.NC_EINVALCOORDS}
        if strict:
            if s >= L: return {D.NC_EINVALCOORDS}
        else:
            if s > L or (s == L and c > 0): return {D.NC_EINVALCOORDS}
    neg = any(c < 0 for c in count)
    edge = False
    for d in range(nd):
        L = shape[d]
        if isrec and d == 0:
            if not isread: continue
            L = numrecs
        c = count[d]; s = start[d]
        if c < 0: continue
        if c > L or s + c > L: edge = True
        if has_stride and c > 0 and s + (c - 1) * stride[d] >= L: edge = True
    badstride = has_stride and any(x <= 0 for x in stride)
    acc = set()
    if neg: acc.add(D.NC_ENEGATIVECNT)
    if edge: acc.add(D.NC_EEDGE)
    if badstride and not edge: acc.add(D.NC_ESTRIDE)
    if badstride and edge: acc |= {D.NC_EEDGE}                 # documented: NC_EEDGE before NC_ESTRIDE
    if badstride and neg: acc.add(D.NC_ESTRIDE)               # order of NC_ENEGATIVECNT and NC_ESTRIDE undocumented
    if not acc: return {0}
    if edge and not neg: return {D.NC_EEDGE}
    return acc


def dim_tuples(L, full):
    S = range(-1, L + 2); C = range(-1, L + 2)
    T = [-1, 0, 1, 2, L, L + 1] if full else [0, 1, 2]
    return [(s, c, t) for s in S for c in C for t in sorted(set(T))]


def tuples_for(shape_lens, full):
    nd = len(shape_lens)
    if nd == 1: per = [dim_tuples(shape_lens[0], True)]
    elif nd == 2: per = [dim_tuples(L, full) for L in shape_lens]
    else:
        per = [[(s, c, t) for s in range(0, L + 2) for c in range(-1 if d == 0 else 0, L + 2) for t in (1, 2)] for d, L in enumerate(shape_lens)]
    for combo in itertools.product(*per):
        yield [x[0] for x in combo], [x[1] for x in combo], [x[2] for x in combo]


SHAPES = {'d1': [('a', 3)], 'd2': [('p', 2), ('a', 3)], 'rec': [('t', None), ('q', 2)], 'rec1': [('t', None), ('q', 2)], 'd3': [('p', 2), ('q', 2), ('r', 2)]}
# 'rec1' / 'prec1': the target is the ONLY record variable of the file (records packed back to back: own contiguity shortcuts)


def build_cases(shape_name, fmt, relax, api, isread, tuples, per_case=120, np=1):
    """api: vars | vara | var1 | varm | varn | ivars (nonblocking + wait)"""
    dims = SHAPES[shape_name]
    cases = []
    tl = list(tuples)
    for b0 in range(0, len(tl), per_case):
        c = Case('OOR-%s-f%d-%s-%s-%s-%d%s' % (shape_name, fmt, 'relax' if relax else 'strict', api, 'get' if isread else 'put', b0, '-np%d' % np if np > 1 else ''), np)
        c.op('*', 'env', PNETCDF_RELAX_COORD_BOUND='1' if relax else '0')
        c.op('*', 'create', f=0, path='a.nc', fmt=fmt, hints='nc_header_align_size=4;nc_var_align_size=4;nc_record_align_size=4')
        alld = [('z', 3)] + dims
        for n, l in alld:
            if l is None: c.op('*', 'def_dim', name=n, unlim=1)
            else: c.op('*', 'def_dim', name=n, len=l)
        tdims = list(range(1, len(alld)))
        isrec = dims[0][1] is None
        c.op('*', 'put_att', f=0, v=-1, name='g', xtype='int', n=2, vals=[1, 2])
        c.op('*', 'def_var', name='before', xtype='short', dims=[0])
        c.op('*', 'def_var', name='target', xtype='int', dims=tdims)
        c.op('*', 'def_var', name='after', xtype='int', dims=[0])
        if isrec and shape_name != 'rec1': c.op('*', 'def_var', name='rafter', xtype='short', dims=[1])
        c.op('*', 'enddef', f=0)
        shape = [NREC if l is None else l for n, l in dims]
        c.op('*', 'put', f=0, form='var', v=0, coll=1, mem='short', tag=40, scale=1)
        c.op('*', 'put', f=0, form='vara', v=1, s=[0] * len(shape), c=shape, coll=1, mem='int', tag=41, scale=1)
        c.op('*', 'put', f=0, form='var', v=2, coll=1, mem='int', tag=42, scale=1)
        if isrec and shape_name != 'rec1': c.op('*', 'put', f=0, form='vara', v=3, s=[0], c=[NREC], coll=1, mem='short', tag=43, scale=1)
        c.op('*', 'buffer_attach', f=0, size=4096)
        s0 = c.op(0, 'snap', path='a.nc')
        ctx = []
        for k, (st, ct, sd) in enumerate(tl[b0:b0 + per_case]):
            n = 1
            for x in ct: n *= max(x, 0)
            kw = dict(f=0, v=1, coll=1, mem='int', s=st, tag=(k % 80) + 1, scale=100)
            form = api
            if api == 'var1': form = 'var1'
            elif api == 'vara': kw['c'] = ct; form = 'vara'
            elif api in ('vars', 'ivars', 'bvars'): kw['c'] = ct; kw['st'] = sd; form = 'vars'
            elif api == 'varm':
                kw['c'] = ct; kw['st'] = sd; form = 'varm'
                im = [1] * len(ct)
                for d in range(len(ct) - 2, -1, -1): im[d] = im[d + 1] * max(ct[d + 1], 1)
                kw['imap'] = im
            elif api == 'varn':
                form = 'varn'; kw.pop('s'); kw.update(n=2, nd=len(ct), s0=[0] * len(ct), c0=[0] * len(ct), s1=st, c1=ct)
            if n == 0 or any(x < 0 for x in ct): kw['nel'] = max(n, 1)
            who = '*' if np == 1 else np - 1
            if np > 1:
                # the other processes take part in the same collective call with a valid request on another variable
                # (same API, same variable, a valid zero-length request)
                nd_ = len(st); z = dict(f=0, v=1, coll=1, mem='int')
                for rr in range(np - 1):
                    if api == 'vara': c.op(rr, 'get' if isread else 'put', form='vara', s=[0] * nd_, c=[0] * nd_, **z)
                    elif api == 'vars': c.op(rr, 'get' if isread else 'put', form='vars', s=[0] * nd_, c=[0] * nd_, st=[1] * nd_, **z)
                    elif api == 'varm': c.op(rr, 'get' if isread else 'put', form='varm', s=[0] * nd_, c=[0] * nd_, st=[1] * nd_, imap=[1] * nd_, **z)
                    else: c.op(rr, 'get' if isread else 'put', form='varn', n=1, nd=nd_, s0=[0] * nd_, c0=[0] * nd_, **z)
            if api in ('ivars', 'bvars'):
                kw['nb'] = 'i' if api == 'ivars' else 'b'; kw['req'] = 0
                lp = c.op(who, 'get' if isread else 'put', form=form, **kw)
                lw = c.op(who, 'wait', f=0, ids=['q0'], all=1)
            else:
                lp = c.op(who, 'get' if isread else 'put', form=form, **kw); lw = None
            if np > 1: c.op('*', 'barrier')
            ls = c.op(0, 'snap', path='a.nc')
            if np > 1: c.op('*', 'barrier')       # the other processes may not start the next write while the file is being read
            ctx.append((st, ct, sd, lp, lw, ls, (k % 80) + 1))
        c.op('*', 'close', f=0)
        cases.append((c, ctx, s0, shape, isrec))
    return cases


def judge(ck, c, ctx, s0, shape, isrec, r, api, isread, relax):
    who = c.np - 1
    text = c.text()
    if r.status != 'ok':
        ck.violation((r.status, api, first_frame(r.detail)), text, c.name + ': ' + r.detail[:600]); return
    prev = bytes.fromhex(r.r(0, s0).get('hex', ''))
    f0 = cdf.decode(prev, with_data=False, strict=False)
    wnum = 8 if f0.version == 5 else 4
    numrecs = NREC
    has_stride = api in ('vars', 'varm', 'ivars', 'bvars')
    for (st, ct, sd, lp, lw, ls, tag) in ctx:
        o = r.r(who, lp)
        ct_eff = [1] * len(st) if api == 'var1' else ct
        exp = expected(shape if not isrec else [None] + shape[1:], isrec, st, ct_eff, sd, isread, not relax, numrecs, has_stride)
        rc = o.rc
        posted = api in ('ivars', 'bvars')
        if posted and rc == 0:
            st_ = r.r(who, lw).ints('st')
            wrc = r.r(who, lw).rc
            if wrc != 0 or (st_ and st_[0] != 0): rc = st_[0] if st_ and st_[0] != 0 else wrc
        ck.outcomes.add((api, isread, rc))
        desc = '%s %s start=%s count=%s stride=%s shape=%s%s' % ('get' if isread else 'put', api, st, ct_eff, sd if has_stride else None, shape, ' (record var, numrecs=%d)' % numrecs if isrec else '')
        if rc not in exp:
            cause = 'accepted' if rc == 0 else ('rejected' if 0 in exp else 'other code')
            ck.violation(('rc', ('get ' if isread else 'put ') + api, cause), text, '%s: %s returned %d, documented %s' % (c.name, desc, rc, sorted(exp))); return
        cur = bytes.fromhex(r.r(0, ls).get('hex', ''))
        others = set()
        idx0 = D.region_indices([None] + shape[1:] if isrec else shape, st, ct_eff, sd if has_stride else None) if rc == 0 and not isread else None
        if rc != 0 or isread or not idx0:
            # rejected, read and zero-length requests (also "count 0 in an inner dimension" on a record variable): not one byte,
            # the record count in the header included
            if any(x != y for i, (x, y) in enumerate(zip(cur, prev)) if i not in others) or len(cur) != len(prev):
                ck.violation(('file_changed', ('get ' if isread else 'put ') + api, 'rejected or read request' if (rc != 0 or isread) else 'zero-length request'), text, '%s: %s (rc=%d) changed the file (first differing byte %s)' % (c.name, desc, rc, next((i for i, (x, y) in enumerate(zip(cur, prev)) if x != y), len(prev)))); return
        else:
            # accepted write: only bytes of the addressed elements of the target (+ numrecs field) may differ
            idx = D.region_indices([None] + shape[1:] if isrec else shape, st, ct_eff, sd if has_stride else None)
            allowed = set(range(4, 4 + wnum)) | others
            fcur = cdf.decode(cur, with_data=True, strict=False)
            for i in idx:
                off = cdf.var_element_offset(fcur, 1, i)
                allowed |= set(range(off, off + 4))
            n = max(len(cur), len(prev))
            a = prev + b'\0' * (n - len(prev)); b_ = cur + b'\0' * (n - len(cur))
            diff = [i for i in range(n) if a[i] != b_[i]]
            # bytes the file did not have before this call and that the call does not address lie in records that are only now
            # created: their content is undefined (no fill), and the MPI-IO layer may write anything into such holes
            bad = [i for i in diff if i not in allowed and i < len(prev)]
            if bad:
                ck.violation(('write_outside_target', 'put ' + api, 'accepted request'), text, '%s: %s changed bytes %s outside the addressed elements' % (c.name, desc, bad[:12])); return
            vals = [D.gen(tag, k, 100) for k in range(len(idx))]
            got = fcur.data.get(1) or []
            for i, v in zip(idx, vals):
                if i >= len(got) or got[i] != v:
                    ck.violation(('value', 'put ' + api, 'accepted request'), text, '%s: %s element %d holds %r, expected %d' % (c.name, desc, i, got[i] if i < len(got) else None, v)); return
            if isrec and idx: numrecs = max(numrecs, max(idx) // (len(fcur.data[1]) // max(fcur.numrecs, 1) if fcur.numrecs else 1) + 1) if False else max(numrecs, fcur.numrecs)
        prev = cur


# ---------------------------------------------------------------- several requests completed together
PSHAPES = {'p1': [('a', 6)], 'p2': [('p', 3), ('a', 4)], 'prec': [('t', None), ('q', 3)], 'prec1': [('t', None), ('q', 3)]}
PNREC = 3


def boxes(lens):
    per = [[(s, c) for s in range(L) for c in range(1, L - s + 1)] for L in lens]
    for combo in itertools.product(*per):
        yield [x[0] for x in combo], [x[1] for x in combo]


def build_pair_cases(shape_name, fmt, api, pairs, per_case=80):
    """api: iput (two iput_vara + one wait_all) | bput | varn (one put_varn with two segments) | ivarn (iput_varn + wait)"""
    dims = PSHAPES[shape_name]
    cases = []
    for b0 in range(0, len(pairs), per_case):
        c = Case('PAIR-%s-f%d-%s-%d' % (shape_name, fmt, api, b0), 1)
        c.op('*', 'create', f=0, path='a.nc', fmt=fmt, hints='nc_header_align_size=4;nc_var_align_size=4;nc_record_align_size=4')
        alld = [('z', 3)] + dims
        for n, l in alld:
            if l is None: c.op('*', 'def_dim', name=n, unlim=1)
            else: c.op('*', 'def_dim', name=n, len=l)
        isrec = dims[0][1] is None
        c.op('*', 'def_var', name='before', xtype='short', dims=[0])
        c.op('*', 'def_var', name='target', xtype='int', dims=list(range(1, len(alld))))
        c.op('*', 'def_var', name='after', xtype='int', dims=[0])
        if isrec and shape_name != 'prec1': c.op('*', 'def_var', name='rafter', xtype='short', dims=[1])
        c.op('*', 'enddef', f=0)
        shape = [PNREC if l is None else l for n, l in dims]
        c.op('*', 'put', f=0, form='var', v=0, coll=1, mem='short', tag=40, scale=1)
        c.op('*', 'put', f=0, form='vara', v=1, s=[0] * len(shape), c=shape, coll=1, mem='int', tag=41, scale=1)
        c.op('*', 'put', f=0, form='var', v=2, coll=1, mem='int', tag=42, scale=1)
        if isrec and shape_name != 'prec1': c.op('*', 'put', f=0, form='vara', v=3, s=[0], c=[PNREC], coll=1, mem='short', tag=43, scale=1)
        c.op('*', 'buffer_attach', f=0, size=8192)
        s0 = c.op(0, 'snap', path='a.nc')
        ctx = []
        for k, ((sa, ca), (sb, cb)) in enumerate(pairs[b0:b0 + per_case]):
            ta, tb = (2 * k) % 80 + 1, (2 * k + 1) % 80 + 1
            if api in ('iput', 'bput'):
                nb = 'i' if api == 'iput' else 'b'
                l1 = c.op('*', 'put', f=0, form='vara', v=1, mem='int', s=sa, c=ca, tag=ta, scale=100, nb=nb, req=0)
                l2 = c.op('*', 'put', f=0, form='vara', v=1, mem='int', s=sb, c=cb, tag=tb, scale=100, nb=nb, req=1)
                lw = c.op('*', 'wait', f=0, ids=['q0', 'q1'], all=1)
                lines = [l1, l2]
            elif api == 'varn':
                l1 = c.op('*', 'put', f=0, form='varn', v=1, coll=1, mem='int', n=2, nd=len(sa), s0=sa, c0=ca, s1=sb, c1=cb, tag=ta, scale=100)
                lw = None; lines = [l1]
            else:
                l1 = c.op('*', 'put', f=0, form='varn', v=1, mem='int', n=2, nd=len(sa), s0=sa, c0=ca, s1=sb, c1=cb, tag=ta, scale=100, nb='i', req=0)
                lw = c.op('*', 'wait', f=0, ids=['q0'], all=1); lines = [l1]
            ls = c.op(0, 'snap', path='a.nc')
            ctx.append(((sa, ca), (sb, cb), lines, lw, ls, ta, tb))
        c.op('*', 'close', f=0)
        cases.append((c, ctx, s0, shape, isrec))
    return cases


def judge_pairs(ck, c, ctx, s0, shape, isrec, r, api):
    text = c.text()
    if r.status != 'ok':
        ck.violation((r.status, 'pair ' + api, first_frame(r.detail)), text, c.name + ': ' + r.detail[:600]); return
    prev = bytes.fromhex(r.r(0, s0).get('hex', ''))
    f0 = cdf.decode(prev, with_data=False, strict=False)
    wnum = 8 if f0.version == 5 else 4
    mshape = [None] + shape[1:] if isrec else shape
    for ((sa, ca), (sb, cb), lines, lw, ls, ta, tb) in ctx:
        desc = '%s of [%s+%s] and [%s+%s] on shape %s' % (api, sa, ca, sb, cb, shape)
        rcs = [r.r(0, l).rc for l in lines]
        if lw is not None:
            w = r.r(0, lw); rcs.append(w.rc); rcs += [x for x in (w.ints('st') or [])]
        ck.outcomes.add(('pair', api, tuple(rcs)))
        if any(rcs):
            ck.violation(('rc', 'pair ' + api, 'valid requests'), text, '%s: %s returned %s' % (c.name, desc, rcs)); return
        ia = D.region_indices(mshape, sa, ca, None); ib = D.region_indices(mshape, sb, cb, None)
        if api in ('iput', 'bput'):
            va = {i: D.gen(ta, k, 100) for k, i in enumerate(ia)}; vb = {i: D.gen(tb, k, 100) for k, i in enumerate(ib)}
        else:
            va = {i: D.gen(ta, k, 100) for k, i in enumerate(ia)}; vb = {i: D.gen(ta, len(ia) + k, 100) for k, i in enumerate(ib)}
        cur = bytes.fromhex(r.r(0, ls).get('hex', ''))
        fcur = cdf.decode(cur, with_data=True, strict=False)
        allowed = set(range(4, 4 + wnum))
        for i in set(ia) | set(ib):
            off = cdf.var_element_offset(fcur, 1, i); allowed |= set(range(off, off + 4))
        n = max(len(cur), len(prev))
        a = prev + b'\0' * (n - len(prev)); b_ = cur + b'\0' * (n - len(cur))
        bad = [i for i in range(n) if a[i] != b_[i] and i not in allowed and i < len(prev)]
        if bad:
            ck.violation(('write_outside_target', 'pair ' + api, 'overlap' if set(ia) & set(ib) else 'disjoint'), text, '%s: %s changed bytes %s outside the union of the two targets' % (c.name, desc, bad[:12])); return
        got = fcur.data.get(1) or []
        for i in sorted(set(ia) | set(ib)):
            ok = {va[i]} if i not in vb else ({vb[i]} if i not in va else {va[i], vb[i]})
            if i >= len(got) or got[i] not in ok:
                ck.violation(('value', 'pair ' + api, 'overlap' if set(ia) & set(ib) else 'disjoint'), text, '%s: %s element %d holds %r, expected one of %s' % (c.name, desc, i, got[i] if i < len(got) else None, sorted(ok))); return
        prev = cur


def gen_multivar(thorough):
    """nonblocking writes to SEVERAL variables posted in every order (the queue is kept sorted by file position, so a request for an earlier
    variable displaces the pending ones) and completed by one wait_all: every request changes its own variable's addressed elements only"""
    from engine.script import Script
    out = []
    dims = [('t', None), ('x', 4)]
    vars_ = [('a', D.NC_INT, [1]), ('b', D.NC_INT, [1]), ('c', D.NC_SHORT, [1]), ('r', D.NC_INT, [0, 1]), ('q', D.NC_INT, [0, 1])]
    REQ = {0: ([1], [2]), 1: ([0], [3]), 2: ([2], [2]), 3: ([0, 1], [2, 2]), 4: ([1, 0], [1, 3])}      # variable -> (start, count); the record-variable requests span 2 / 1 records
    sets = [(0, 1, 2), (1, 2, 3), (0, 3, 4), (0, 1, 2, 3)] + ([(0, 1, 2, 3, 4), (1, 2, 3, 4)] if thorough else [])
    for vs in sets:
        for order in itertools.permutations(vs):
            if list(order) == sorted(order) and len(vs) > 3: continue
            for nb in ('i', 'b'):
                for how in (('ids', 'ALL') if (thorough or len(vs) == 3) else ('ids',)):
                    s = Script('MV-%s-%s-%s' % (''.join(map(str, order)), nb, how), 1, 2, dims, vars_, hints='nc_header_align_size=4;nc_var_align_size=4;nc_record_align_size=4')
                    for v in range(3): s.put('*', v, form='var', coll=1, tag=60 + v)
                    for v in (3, 4): s.put('*', v, [0, 0], [3, 4], None, form='vara', coll=1, tag=60 + v)
                    s.op('*', 'buffer_attach', size=1024)
                    posted = []
                    for k, v in enumerate(order):
                        st, ct = REQ[v]
                        ln, idx, vals = s.put('*', v, st, ct, None, form='vara', nb=nb, req=k, tag=10 + k, update=False)
                        posted.append((v, idx, vals))
                    if how == 'ids': s.op('*', 'wait', f=0, ids=['q%d' % k for k in range(len(order))], all=1)
                    else: s.op('*', 'wait', f=0, kind='ALL', all=1)
                    for v, idx, vals in posted: s.model.put_idx(v, idx, vals)
                    for v in range(len(vars_)): s.get_all('*', v, coll=1, what='every variable after writes to several variables completed by one wait')
                    s.op('*', 'buffer_detach')
                    s.finish()
                    out.append(s)
    return out


def gen_mismatch(thorough):
    """the buffer description (bufcount x buftype) holds one element fewer / as many / one more than the request addresses, for every kind of
    buffer datatype: a mismatch is NC_EIOMISMATCH and changes nothing, a match is carried out inside its target"""
    from engine.script import Script
    out = []
    dims = [('t', None), ('x', 7)]
    vars_ = [('a', D.NC_BYTE, [1]), ('b', D.NC_INT, [1]), ('r', D.NC_SHORT, [0, 1])]
    lays = ['contig', 'cont2', 'vec:1:2', 'vec:2:3', 'idx', 'struct', 'hvec:1:3', 'rsz:1:2'] if thorough else ['contig', 'cont2', 'vec:2:3', 'idx', 'struct']
    for lay in lays:
        for isget in (False, True):
            for nb in ((None, 'i', 'b') if not isget else (None, 'i')):
                s = Script('MM-%s-%s-%s' % (lay.replace(':', '_'), 'get' if isget else 'put', nb or 'blocking'), 1, 2, dims, vars_, hints='nc_header_align_size=4;nc_var_align_size=4;nc_record_align_size=4')
                s.put('*', 0, form='var', coll=1, tag=60, scale=1); s.put('*', 1, form='var', coll=1, tag=61)
                s.put('*', 2, [0, 0], [2, 7], None, form='vara', coll=1, tag=62)
                s.op('*', 'buffer_attach', size=1024)
                tag = 1
                for v, st, ct in ((0, [1], [6]), (1, [0], [6]), (1, [1], [6]), (2, [0, 1], [1, 6]), (2, [0, 0], [2, 3])):
                    n = D.nelems(ct)
                    for m in (n - 1, n, n + 1):
                        tag = tag % 80 + 1
                        mem = D.XT_MEM[s.model.vars[v].xtype]
                        exp = 0 if m == n else D.NC_EIOMISMATCH
                        extra = dict(nel=m) if m != n else None
                        if isget:
                            kw = dict(f=0, form='vara', v=v, s=st, c=ct, mem=mem, api='flex', coll=1)
                            if lay != 'contig': kw['lay'] = lay
                            if extra: kw.update(extra)
                            if nb: kw.update(nb=nb, req=0, coll=None)
                            s.op('*', 'get', expect_rc=exp, **kw)
                            if nb: s.op('*', 'wait', f=0, kind='ALL', all=1)
                        else:
                            s.put('*', v, st, ct, None, form='vara', api='flex', lay=None if lay == 'contig' else lay, coll=0 if nb else 1, tag=tag, nb=nb, req=0 if nb else None,
                                  expect_rc=exp, update=False, extra=extra)
                            if nb: s.op('*', 'wait', f=0, kind='ALL', all=1)
                            if m == n:
                                idx = D.region_indices(s.model.vars[v].shape if not s.model.vars[v].isrec else [2] + list(s.model.vars[v].shape[1:]), st, ct, None)
                                vals, sc = s.values_for(v, len(idx), tag, mem)
                                s.model.put_idx(v, idx, vals)
                        for vv in range(3): s.get_all('*', vv, coll=1, what='every variable after a request whose buffer holds %s elements' % ('as many' if m == n else 'one fewer' if m < n else 'one more'))
                s.op('*', 'buffer_detach')
                s.finish()
                out.append(s)
    return out


def main(tier=None):
    ck = Check('C15', 'exploration', tier)
    b = build.build('plain')
    thorough = ck.tier == 'thorough'
    plan = []
    fmts = (1, 2, 5) if thorough else (1,)
    for fmt in fmts:
        for relax in (0, 1):
            for isread in (False, True):
                for sh in (['d1', 'd2', 'rec', 'rec1', 'd3'] if thorough else ['d1', 'd2', 'rec', 'rec1']):
                    lens = [NREC if l is None else l for n, l in SHAPES[sh]]
                    full = list(tuples_for(lens, thorough))
                    if not thorough and sh != 'd1': full = full[::3]
                    plan.append((sh, fmt, relax, 'vars', isread, full))
                    red = full[::7] if sh != 'd1' else full[::2]
                    for api in (['vara', 'var1', 'varm', 'varn', 'ivars', 'bvars'] if fmt == fmts[0] else ['vara']):
                        if api == 'bvars' and isread: continue
                        if api in ('vara', 'var1', 'varn'):
                            t2 = sorted(set((tuple(s), tuple(c)) for s, c, t in (full if thorough else red)))
                            t2 = [(list(s), list(c), [1] * len(s)) for s, c in t2]
                            if api == 'var1': t2 = [x for i, x in enumerate(t2) if all(cc == 1 for cc in x[1])]
                            plan.append((sh, fmt, relax, api, isread, t2 if thorough else t2[::2]))
                        else:
                            plan.append((sh, fmt, relax, api, isread, red))
    allc = []
    for (sh, fmt, relax, api, isread, tl) in plan:
        for x in build_cases(sh, fmt, relax, api, isread, tl): allc.append((x, api, isread, relax))
    # the same tuples passed by ONE process of a collective call while the others pass valid requests: a rejected request may
    # not reach the file through the collective transfer the rejecting process still takes part in
    for (sh, fmt, relax, api, isread, tl) in plan:
        if api in ('ivars', 'bvars', 'var1') or fmt != fmts[0]: continue
        for np_ in ((2, 3) if thorough else (2,)):
            sub = tl if (thorough or sh == 'd1') else tl[::3]
            for x in build_cases(sh, fmt, relax, api, isread, sub, np=np_): allc.append((x, api, isread, relax))
    results = runner.run_cases(b['vx'], [x[0][0] for x in allc], batch=8, timeout=600)
    nt = 0
    for ((c, ctx, s0, shape, isrec), api, isread, relax), r in zip(allc, results):
        nt += len(ctx)
        judge(ck, c, ctx, s0, shape, isrec, r, api, isread, relax)
    # pairs of valid requests completed by one call: writes stay inside the union of the two targets
    pc = []
    for fmt in fmts:
        for sh in PSHAPES:
            lens = [PNREC if l is None else l for n, l in PSHAPES[sh]]
            bx = list(boxes(lens))
            pairs = [(x, y) for x in bx for y in bx]
            if not thorough and sh != 'p1': pairs = pairs[::5]
            for api in (('iput', 'bput', 'varn', 'ivarn') if (thorough or sh == 'p1') else ('iput', 'varn')):
                for x in build_pair_cases(sh, fmt, api, pairs): pc.append((x, api))
    pres = runner.run_cases(b['vx'], [x[0][0] for x in pc], batch=8, timeout=600)
    npairs = 0
    for ((c, ctx, s0, shape, isrec), api), r in zip(pc, pres):
        npairs += len(ctx)
        judge_pairs(ck, c, ctx, s0, shape, isrec, r, api)
    nt += npairs
    # writes to several variables, posted in every order, completed by one wait
    mv = gen_multivar(thorough)
    mres = runner.run_cases(b['vx'], [x.case for x in mv], batch=20)
    for x, r in zip(mv, mres):
        nt += x.nevals
        for sig, detail in x.judge(r): ck.violation(sig, x.case.text(), x.case.name + ': ' + detail)
    ck.cov['multi_variable_orders'] = len(mv)
    # buffer descriptions that do not match the request size
    mm = gen_mismatch(thorough)
    for x, r in zip(mm, runner.run_cases(b['vx'], [x.case for x in mm], batch=10)):
        nt += x.nevals
        for sig, detail in x.judge(r): ck.violation(sig, x.case.text(), x.case.name + ': ' + detail)
    ck.cov['size_mismatch_programs'] = len(mm)
    ck.cov['request_pairs'] = npairs
    ck.cov['evaluations'] = nt
    ck.cov['distinct_nontrivial'] = nt
    ck.cov['rule'] = ('every (start,count,stride) in {-1..len+1} x {-1..len+1} x {-1,0,1,2,len,len+1} per dimension for shapes (3), (2,3), (U,2) and a reduced grid for (2,2,2) through put/get_vars, and derived tuple sets through '
                      'var1, vara, varm, varn, iput/iget/bput+wait; strict and relaxed coordinate bound; the file is snapshot after every call: rejected, zero-length and read requests may not change a byte, accepted writes '
                      'may change only the bytes of the addressed elements (+ the numrecs field) which must then hold the new values; the blocking forms again with the tuple passed by one process of a 2-3 process collective call while the others pass valid requests; every ordered pair of in-range boxes of a (6), (3,4) and (U,3) variable posted as two iput/bput requests completed by one wait_all '
                      'or as the two segments of one put_varn / iput_varn (disjoint, adjacent, partially overlapping, nested): only bytes of the union may change, elements of one box hold its value, elements of both hold either; nonblocking writes (iput / bput) to 3-4 (thorough 5) variables posted in every order and completed by one wait_all (by ids / NC_REQ_ALL): every variable is read back, the file reopened and decoded; flexible requests whose buffer description (contiguous, vector, indexed, struct with members of different block lengths, resized) holds one element fewer / as many / one more than the request addresses, blocking, iput / iget, bput: NC_EIOMISMATCH and nothing changed, or carried out inside the target')
    ck.sample(allc[0][0][0].text()[:1500])
    ck.assumptions += ['bytes beyond the previous end of file that a record-appending write does not address are undefined content and not compared', 'where no document orders two applicable codes (NC_ENEGATIVECNT vs NC_EEDGE / NC_ESTRIDE) either is accepted', 'larger shapes and derived buffer types for out-of-range requests are outside the bound (the property\'s random clause is not done)']
    runner.cleanup()
    return ck.finish(min_eval=1000, min_outcomes=8)


if __name__ == '__main__':
    sys.exit(main(sys.argv[1] if len(sys.argv) > 1 else None))
