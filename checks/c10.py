"""C10 Hints, process count and execution modes never change results — every single (thorough: pair of) configuration deviation(s) on a program corpus."""
import itertools, sys, os, hashlib
sys.path.insert(0, os.path.dirname(os.path.dirname(os.path.abspath(__file__))))
from engine import build, runner, cdf, fileck
from engine import script as S
from engine.common import Check
from engine.runner import Case
from engine.script import first_frame
import checks.c01 as c01, checks.c02 as c02, checks.c06 as c06, checks.c16 as c16

# deviation = (name, MPI_Info hints, env) ; baseline = no hints, safe mode off
DEV = [
    ('h_align4', 'nc_header_align_size=4', None), ('h_align512', 'nc_header_align_size=512', None), ('h_align1000', 'nc_header_align_size=1000', None),
    ('v_align512', 'nc_var_align_size=512', None), ('r_align1000', 'nc_record_align_size=1000', None),
    ('ibuf1', 'nc_ibuf_size=1', None), ('swap_on', 'nc_in_place_swap=enable', None), ('swap_off', 'nc_in_place_swap=disable', None),
    ('hash1', 'nc_hash_size_dim=1;nc_hash_size_var=1;nc_hash_size_gattr=1;nc_hash_size_vattr=1', None), ('hash2', 'nc_hash_size_dim=2;nc_hash_size_var=2;nc_hash_size_gattr=2;nc_hash_size_vattr=2', None),
    ('hcoll', 'romio_no_indep_rw=true', None), ('aggr1', 'nc_num_aggrs_per_node=1', None), ('aggr2', 'nc_num_aggrs_per_node=2', None),
    ('safe', None, {'PNETCDF_SAFE_MODE': '1'}),
    ('env_align', None, {'PNETCDF_HINTS': 'nc_header_align_size=1000;nc_var_align_size=8'}), ('env_swap', None, {'PNETCDF_HINTS': 'nc_in_place_swap=enable;nc_ibuf_size=1'}),
    ('chunk36', None, {'PNETCDF_VERIF_HDR_CHUNK': '36'}),
]


def corpus(thorough):
    """programs (Script/Prog objects) built under the currently set global configuration"""
    out = []
    out += c01.gen_T2(2, [c01.SHAPES[2], c01.SHAPES[4]], ['typed', 'typed-conv', 'vec2', 'idx'])
    out += c01.gen_T3(1, [c01.SHAPES[2], c01.SHAPES[5]], 2)
    if thorough: out += c01.gen_T3(5, [c01.SHAPES[4]], 3) + c01.gen_T3(1, [c01.SHAPES[4]], 4)
    out += c02.gen_B(c02.REPR_TRIPLES[:2], hows=('wait_all',))[:14] + c02.gen_D(c02.REPR_TRIPLES[:1], 2)
    out += c06.gen((1,), (1, 2) + ((4,) if thorough else ()), (None,), (3,), ['mix'], ['default'], reps=(1,))[:24]
    out += c16.gen((1,), (2,), [(3, 5)], ['dataset_before', 'pervar_value'], ['redef_add'], (0, 1))
    out += meta_programs()
    out += gen_division(thorough)
    return out


def gen_division(thorough=False):
    """the same logical writes (three new records of a record variable) divided among the processes in every way, including processes that
    get nothing: collective blocking puts in which a process without work passes a zero-length request, and nonblocking puts completed by one
    wait_all in which a process without work posts nothing; afterwards every process reports the record count and reads everything back"""
    from engine.model import data as D
    out = []
    dims = [('t', None), ('x', 2)]; vars_ = [('r', D.NC_INT, [0, 1]), ('f', D.NC_INT, [1])]
    for np in (2, 3) + ((4,) if thorough else ()):
        for assign in itertools.product(range(np), repeat=3):
            if np > 2 and len(set(assign)) == np: continue          # every process has work: covered by np=2 and the other corpus programs
            for mode in ('iput', 'put'):
                s = S.Script('DIV-np%d-%s-%s' % (np, ''.join(map(str, assign)), mode), np, 1, dims, vars_)
                s.put('*', 1, form='var', coll=1, tag=40)
                if mode == 'put':
                    for k, rk in enumerate(assign):
                        for r in range(np):
                            if r == rk: s.put(r, 0, [k, 0], [1, 2], None, form='vara', coll=1, tag=10 + k)
                            else: s.put(r, 0, [0, 0], [0, 0], None, form='vara', coll=1, tag=20 + k)
                else:
                    posted = []
                    for k, rk in enumerate(assign):
                        ln, idx, vals = s.put(rk, 0, [k, 0], [1, 2], None, form='vara', nb='i', req=k, tag=10 + k, update=False)
                        posted.append((rk, k, idx, vals))
                    for r in range(np):
                        mine = [k for (rk, k, _, _) in posted if rk == r]
                        s.op(r, 'wait', f=0, ids=['q%d' % k for k in mine] if mine else None, all=1, num=len(mine))
                    for (rk, k, idx, vals) in posted: s.model.put_idx(0, idx, vals)
                ln = s.op('*', 'inq_unlimlen', f=0)

                def chk(o, rank, ln=ln):
                    if o.rc == 0 and int(o.get('len', -1)) != 3:
                        return (('numrecs', 'inq_unlimlen', 'after divided writes'), 'line %d rank %d: record count %s after three records were written, expected 3' % (ln, rank, o.get('len')))
                s.add_expect(ln, chk)
                s.get_all('*', 0, coll=1)
                s.finish()
                out.append(s)
    return out


def meta_programs():
    """name-table histories (define, rename, add, delete, look up) whose results may not depend on the hash-table sizes"""
    from engine.prog import Prog
    from engine.model import data as D
    progs = []
    for np in (1, 2):
        for variant in range(3):
            p = Prog('META-np%d-%d' % (np, variant), np, 1)
            p.do(dict(op='def_dim', name='x', len=2)); p.do(dict(op='def_dim', name='yy', len=3))
            p.do(dict(op='def_var', name='v', xtype=D.NC_INT, dims=[0])); p.do(dict(op='def_var', name='w', xtype=D.NC_SHORT, dims=[1]))
            for v in (-1, 0):
                for k in range(5): p.do(dict(op='put_att', v=v, name='a%d' % k, xtype=D.NC_INT, vals=[100 + k]))
                p.do(dict(op='rename_att', v=v, name='a%d' % variant, newname='b%d' % variant))
                if variant != 1: p.do(dict(op='put_att', v=v, name='a9', xtype=D.NC_INT, vals=[9]))
                p.do(dict(op='del_att', v=v, name='a%d' % (variant + 1)))
                p.do(dict(op='rename_att', v=v, name='a4', newname='a%d' % (variant + 1)))
            p.do(dict(op='rename_dim', d=0, name='z')); p.do(dict(op='rename_var', v=1, name='x'))
            def lookups():
                for v in (-1, 0):
                    for a in p.m.attlist(v): p.rc_lines.append((p.case.op('*', 'get_att', f=0, v=v, name=a[0]), 0))
            lookups()
            p.do(dict(op='enddef')); p.checkpoint('enddef'); lookups()
            p.do(dict(op='rename_att', v=0, name='a3', newname='c')); p.checkpoint('rename in data mode')
            p.do(dict(op='redef')); p.do(dict(op='del_att', v=-1, name='a3')); p.do(dict(op='put_att', v=-1, name='a3', xtype=D.NC_BYTE, vals=[1, 2]))
            p.do(dict(op='enddef')); p.checkpoint('second enddef')
            p.do(dict(op='close')); p.checkpoint('close', closed=True)
            progs.append(p)
    return progs


def image(r, s):
    """configuration-independent fingerprint of a run: every rc, every read buffer, and the logical content of the final file"""
    parts = []
    gexp = dict(getattr(s, 'get_exp', {}))
    for (ln, v, exp, label) in getattr(s, 'reads', []): gexp[ln] = exp
    for k in sorted(r.ranks):
        idx = 0
        for ln in sorted(r.ranks[k]):
            o = r.ranks[k][ln]
            if o.get('op') in ('snap', 'sweep', 'inq_file_info', 'ledger', 'env'): continue
            idx += 1
            vals = o.get('vals')
            if o.get('op') == 'get' and vals is not None and ln in gexp:
                vv = vals.split(',') if vals else []
                vals = ','.join(x if (i < len(gexp[ln]) and gexp[ln][i] is not None) else '_' for i, x in enumerate(vv))     # undefined content is never compared
            parts.append((k, idx, o.get('op'), o.get('rc'), vals, o.get('st'), o.get('ids'), o.get('len'), o.get('n')))
    logical = None
    for ln in sorted(r.ranks.get(0, {}), reverse=True):
        o = r.ranks[0][ln]
        if o.get('op') == 'snap' and o.rc == 0 and o.get('hex') not in (None, 'TOOBIG'):
            try:
                logical = cdf.logical(cdf.decode(bytes.fromhex(o.get('hex'))))
                # undefined content (never written, not filled) is never compared: keep only elements the model defines
                for v, vd in enumerate(logical.get('vars', [])):
                    if hasattr(s, 'model'): defined = s.model.vars[v].vals if v < len(s.model.vars) else {}
                    else: defined = s.m.data.get(v, {})
                    if vd.get('data') is not None: vd['data'] = [x if i in defined else '_' for i, x in enumerate(vd['data'])]
            except Exception as e: logical = 'undecodable: %s' % e
            break
    return parts, logical


def main(tier=None):
    ck = Check('C10', 'exploration', tier)
    b = build.build('plain')
    thorough = ck.tier == 'thorough'
    devs = [(n, h, e) for n, h, e in DEV]
    combos = [()] + [(d,) for d in devs]
    if thorough:
        for a, c_ in itertools.combinations(devs, 2):
            if a[0].split('_')[0] == c_[0].split('_')[0]: continue
            combos.append((a, c_))
    runs = []
    for combo in combos:
        hints = ';'.join(d[1] for d in combo if d[1]) or None
        env = {}
        for d in combo:
            for k, v in (d[2] or {}).items(): env[k] = (env[k] + ';' + v) if k in env and k == 'PNETCDF_HINTS' else v
        S.GLOBAL['hints'] = hints; S.GLOBAL['env'] = env or None
        progs = corpus(thorough)
        S.GLOBAL['hints'] = None; S.GLOBAL['env'] = None
        for i, p in enumerate(progs): runs.append((combo, i, p))
    # hint report programs
    rep = []
    for combo in combos[1:len(devs) + 1]:
        d = combo[0]
        c = Case('HINTS-' + d[0], 2)
        if d[2]: c.op('*', 'env', **d[2])
        c.op('*', 'create', f=0, path='a.nc', fmt=1, hints=d[1]); c.op('*', 'def_dim', f=0, name='x', len=2); c.op('*', 'def_var', f=0, name='v', xtype='int', dims=[0]); c.op('*', 'enddef', f=0)
        ln = c.op('*', 'inq_file_info', f=0); c.op('*', 'close', f=0)
        rep.append((d, c, ln))
    results = runner.run_cases(b['vx'], [p.case for _, _, p in runs] + [c for _, c, _ in rep], batch=30)
    base = {}
    for (combo, i, p), r in zip(runs, results):
        ck.cov['evaluations'] += 1
        cname = '+'.join(d[0] for d in combo) or 'baseline'
        if r.detail.startswith('FLAKE'): ck.flakes += 1
        vs = p.judge(r)
        for sig, detail in vs:
            ck.violation((sig[0], sig[1], 'config ' + cname if combo else sig[2]), p.case.text(), '%s under [%s]: %s' % (p.case.name, cname, detail))
        if r.status != 'ok': continue
        img = image(r, p)
        if not combo: base[i] = img
        elif i in base:
            b0 = base[i]
            if img[0] != b0[0]:
                diff = next((x for x, y in zip(img[0], b0[0]) if x != y), None)
                ck.violation(('differs_from_baseline', 'return codes / read buffers', cname), p.case.text(), '%s: under [%s] a call returns %s, baseline %s' % (p.case.name, cname, diff, next((y for x, y in zip(img[0], b0[0]) if x != y), None)))
            elif img[1] != b0[1]:
                ck.violation(('differs_from_baseline', 'file content', cname), p.case.text(), '%s: logical content of the output file under [%s] differs from the baseline run' % (p.case.name, cname))
        ck.outcomes.add(hashlib.md5(repr(img).encode()).hexdigest())
    for (d, c, ln), r in zip(rep, results[len(runs):]):
        ck.cov['evaluations'] += 1
        if r.status != 'ok': ck.violation((r.status, 'inq_file_info', first_frame(r.detail)), c.text(), c.name + ': ' + r.detail[:400]); continue
        info = fileck.parse_info(r.r(0, ln))
        want = {}
        for src in (d[1], (d[2] or {}).get('PNETCDF_HINTS')):
            if src:
                for kv in src.split(';'):
                    k, v = kv.split('='); want[k] = v
        for k, v in want.items():
            got = info.get(k)
            okv = {v}
            if k.endswith('align_size'): okv = {str((int(v) + 3) // 4 * 4)}
            if got not in okv:
                ck.violation(('hint_not_in_force', 'inq_file_info', k), c.text(), '%s: requested %s=%s, library reports %s' % (c.name, k, v, got))
    ck.cov['distinct_nontrivial'] = len(ck.outcomes)
    ck.cov['configurations'] = len(combos); ck.cov['programs'] = len(base)
    ck.cov['rule'] = ('corpus of %d programs drawn from the C01/C02/C06/C16 generators, name-table programs and the work-division family (three record appends assigned to 2-3 (thorough 4) processes in every way, idle processes post nothing / pass zero-length requests) (np 1-4) run under the baseline and under every single deviation%s of: alignment hints, nc_ibuf_size=1, nc_in_place_swap, hash sizes 1/2, '
                      'collective header I/O, intra-node aggregation 1/2, safe mode, PNETCDF_HINTS form, header chunk 36; every run is checked against the reference model and, against the baseline run of the same program, for identical return '
                      'codes, read buffers and decoded logical file content; effective hints reported by inq_file_info must be the requested ones' % (len(base), ' and every pair of deviations' if thorough else ''))
    ck.sample(runs[0][2].case.text()[:1200])
    ck.assumptions += ['np <= 4; offsets may differ between configurations, only logical content is compared (layout correctness is C03)']
    runner.cleanup()
    return ck.finish(min_eval=100, min_outcomes=20)


if __name__ == '__main__':
    sys.exit(main(sys.argv[1] if len(sys.argv) > 1 else None))
