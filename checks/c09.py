"""C09 Numeric type conversion and range checking are exact — exhaustive value sets per (external type, memory type, direction, object)."""
import sys, os, math
sys.path.insert(0, os.path.dirname(os.path.dirname(os.path.abspath(__file__))))
from engine import build, runner
from engine.common import Check
from engine.runner import Case
from engine.script import first_frame
from engine.model import data as D
from engine.model import convert as C

NC_ERANGE = D.NC_ERANGE
MEMS = ['schar', 'uchar', 'short', 'ushort', 'int', 'uint', 'long', 'longlong', 'ulonglong', 'float', 'double']


def xtypes(fmt): return [1, 3, 4, 5, 6] + ([7, 8, 9, 10, 11] if fmt == 5 else [])


def values_for(src, dst, stride16):
    """source-domain values to try"""
    if src[0] == 'i':
        lo, hi = C.irange(src)
        if src[1] == 8: return list(range(lo, hi + 1))
        if src[1] == 16:
            b = set(C.boundary_ints(dst, src))
            return sorted(set(range(lo, hi + 1, stride16)) | b)
        return C.boundary_ints(dst, src)
    return C.boundary_floats(dst, src)


def fmtv(x):
    if isinstance(x, float):
        if x != x: return 'nan'
        if x == math.inf: return 'inf'
        if x == -math.inf: return '-inf'
        return x.hex()
    return str(x)


def same_val(a, b, bits=64):
    """a: observed, b: expected (python numbers)"""
    if isinstance(b, float) or isinstance(a, float):
        a = float(a); b = float(b)
        if b != b: return a != a
        if bits == 32: return C.f32(a) == C.f32(b) and (math.copysign(1, a) == math.copysign(1, b) or a != 0)
        return a == b
    return a == b


def judge_elements(src_vals, got, rc, src, dst, exempt, fills, dstbits):
    """returns None or (cause, text)"""
    if len(got) != len(src_vals): return ('count', 'got %d values for %d inputs' % (len(got), len(src_vals)))
    must = False; may = False; saw_fill_choice = False
    for i, (v, g) in enumerate(zip(src_vals, got)):
        oks, er = C.convert(v, src, dst, exempt)
        okmatch = any(same_val(g, o, dstbits) for o in oks)
        fillmatch = any(same_val(g, f, dstbits) for f in fills)
        if er and not oks:
            must = True
            if not fillmatch: return ('erange_element_not_fill', 'element %d: input %r is not representable; destination holds %r, expected the fill value %r' % (i, v, g, fills))
        elif er and oks:
            may = True
            if not (okmatch or fillmatch): return ('fringe_value', 'element %d: input %r (two-valued zone) gives %r; expected %r or fill %r' % (i, v, g, sorted(oks, key=str), fills))
            if fillmatch and not okmatch: saw_fill_choice = True
        else:
            if not okmatch:
                cause = 'nan_to_int' if (isinstance(v, float) and v != v) else 'inexact_value'
                return (cause, 'element %d: input %r is representable; destination holds %r, expected %r' % (i, v, g, sorted(oks, key=str)))
    if must and rc != NC_ERANGE: return ('erange_not_reported', 'an element is not representable but the call returned %d' % rc)
    if not must and not may and rc != 0: return ('spurious_error', 'every element is representable but the call returned %d' % rc)
    if not must and may:
        if rc not in (0, NC_ERANGE): return ('rc', 'call returned %d' % rc)
        if rc == 0 and saw_fill_choice: return ('fill_without_erange', 'a fringe element was replaced by fill but the call returned NC_NOERR')
    if rc not in (0, NC_ERANGE): return ('rc', 'call returned %d' % rc)
    return None


OWN_FILL = 7        # representable in every external type


def build_var_cases(fmt, stride16):
    """one case per (external type, direction): variables"""
    cases = []
    for X in xtypes(fmt):
        xd = C.EXT[X]
        # ---- PUT: mem -> ext
        c = Case('PUT-f%d-x%d' % (fmt, X), 1); ctx = []
        c.op('*', 'create', f=0, path='a.nc', fmt=fmt)
        c.op('*', 'def_dim', f=0, name='t', unlim=1)
        plan = []
        for mi, M in enumerate(MEMS):
            vals = values_for(C.MEM[M], xd, stride16)
            plan.append((M, vals))
            c.op('*', 'def_dim', f=0, name='d%d' % mi, len=len(vals))
            # every third variable is a record variable that the put extends: range errors must not keep the other records from appearing
            c.op('*', 'def_var', f=0, name='p%d' % mi, xtype=D.XT_NAME[X], dims=[0] if mi % 3 == 2 else [mi + 1])
            # every fourth variable carries its own _FillValue (put as an attribute: the variable itself stays in no-fill mode):
            # unrepresentable elements must receive this value, not the type default
            if mi % 4 == 1: c.op('*', 'put_att', f=0, v=mi, name='_FillValue', xtype=D.XT_NAME[X], n=1, vals=[OWN_FILL])
        c.op('*', 'enddef', f=0)
        for mi, (M, vals) in enumerate(plan):
            # typed call; flexible call with a contiguous buffer; flexible call with a strided (non-contiguous) buffer type
            for api in ((None, 'flex') if mi % 3 == 0 else ((None, 'flexvec') if mi % 3 == 1 else (None,))):
                lp = c.op('*', 'put', f=0, form='vara', v=mi, s=[0], c=[len(vals)], coll=1, mem=M, api='flex' if api else None, lay='vec:1:2' if api == 'flexvec' else None, vals=','.join(fmtv(x) for x in vals))
                lg = c.op('*', 'get', f=0, form='vara', v=mi, s=[0], c=[len(vals)], coll=1, mem=D.XT_MEM[X])
                ctx.append(('put', M, vals, lp, lg, api) + ((dict(fill=OWN_FILL),) if mi % 4 == 1 else ()))
        c.op('*', 'close', f=0)
        cases.append((c, ctx, X, fmt))
        # ---- GET: ext -> mem
        c = Case('GET-f%d-x%d' % (fmt, X), 1); ctx = []
        c.op('*', 'create', f=0, path='a.nc', fmt=fmt)
        plan = []
        for mi, M in enumerate(MEMS):
            vals = values_for(xd, C.MEM[M], stride16)
            plan.append((M, vals))
            c.op('*', 'def_dim', f=0, name='d%d' % mi, len=len(vals))
            c.op('*', 'def_var', f=0, name='g%d' % mi, xtype=D.XT_NAME[X], dims=[mi])
        c.op('*', 'enddef', f=0)
        for mi, (M, vals) in enumerate(plan):
            lw = c.op('*', 'put', f=0, form='vara', v=mi, s=[0], c=[len(vals)], coll=1, mem=D.XT_MEM[X], vals=','.join(fmtv(x) for x in vals))
            # typed get; flexible get into a contiguous buffer; flexible get into a strided buffer type (conversion staged in a
            # temporary buffer and unpacked afterwards); nonblocking get into the strided type completed by wait_all
            for api in ((None, 'flex') if mi % 3 == 1 else ((None, 'flexvec', 'iflexvec') if mi % 3 == 2 else (None, 'flexvec'))):
                if api == 'iflexvec':
                    c.op('*', 'get', f=0, form='vara', v=mi, s=[0], c=[len(vals)], mem=M, api='flex', lay='vec:1:2', nb='i', req=mi % 8)
                    lwq = c.op('*', 'wait', f=0, ids=['q%d' % (mi % 8)], all=1)
                    lg = c.op('*', 'rbuf', req=mi % 8)
                    ctx.append(('iget', M, vals, lw, lg, api, lwq))
                    continue
                lg = c.op('*', 'get', f=0, form='vara', v=mi, s=[0], c=[len(vals)], coll=1, mem=M, api='flex' if api else None, lay='vec:1:2' if api == 'flexvec' else None)
                ctx.append(('get', M, vals, lw, lg, api))
        c.op('*', 'close', f=0)
        cases.append((c, ctx, X, fmt))
    return cases


def build_att_cases(fmt):
    cases = []
    for X in xtypes(fmt):
        xd = C.EXT[X]
        c = Case('ATT-f%d-x%d' % (fmt, X), 1); ctx = []
        c.op('*', 'create', f=0, path='a.nc', fmt=fmt)
        for mi, M in enumerate(MEMS):
            vals = values_for(C.MEM[M], xd, 4096)
            if C.MEM[M][1] == 8: vals = vals[::5] + [vals[-1]]
            lp = c.op('*', 'put_att', f=0, v=-1, name='p%d' % mi, xtype=D.XT_NAME[X], mem=M, n=len(vals), vals=','.join(fmtv(x) for x in vals))
            lg = c.op('*', 'get_att', f=0, v=-1, name='p%d' % mi)
            ctx.append(('put', M, vals, lp, lg, 'att'))
            vals2 = values_for(xd, C.MEM[M], 4096)
            if xd[1] == 8: vals2 = vals2[::5] + [vals2[-1]]
            lw = c.op('*', 'put_att', f=0, v=-1, name='g%d' % mi, xtype=D.XT_NAME[X], n=len(vals2), vals=','.join(fmtv(x) for x in vals2))
            lg2 = c.op('*', 'get_att', f=0, v=-1, name='g%d' % mi, mem=M)
            ctx.append(('get', M, vals2, lw, lg2, 'att'))
        # the same conversions when an existing attribute is overwritten in data mode (the header is rewritten at once),
        # and what a second open of the file finds afterwards
        c.op('*', 'enddef', f=0)
        later = []
        for mi, M in enumerate(MEMS):
            vals = values_for(C.MEM[M], xd, 4096)
            if C.MEM[M][1] == 8: vals = vals[::5] + [vals[-1]]
            rv = list(reversed(vals))
            lp = c.op('*', 'put_att', f=0, v=-1, name='p%d' % mi, xtype=D.XT_NAME[X], mem=M, n=len(rv), vals=','.join(fmtv(x) for x in rv))
            lg = c.op('*', 'get_att', f=0, v=-1, name='p%d' % mi)
            ctx.append(('put', M, rv, lp, lg, 'att'))
            later.append((mi, M, rv, lp))
        c.op('*', 'close', f=0)
        c.op('*', 'open', f=0, path='a.nc', write=0)
        for mi, M, rv, lp in later:
            lg = c.op('*', 'get_att', f=0, v=-1, name='p%d' % mi)
            ctx.append(('put', M, rv, lp, lg, 'att'))
        c.op('*', 'close', f=0)
        cases.append((c, ctx, X, fmt))
    return cases


def build_char_cases(fmt):
    """text and numeric types never convert into each other"""
    c = Case('CHAR-f%d' % fmt, 1); ctx = []
    c.op('*', 'create', f=0, path='a.nc', fmt=fmt)
    c.op('*', 'def_dim', f=0, name='d', len=2)
    c.op('*', 'def_var', f=0, name='txt', xtype='char', dims=[0])
    c.op('*', 'def_var', f=0, name='num', xtype='int', dims=[0])
    c.op('*', 'put_att', f=0, v=-1, name='ta', xtype='char', n=2, vals='65,66')
    c.op('*', 'put_att', f=0, v=-1, name='na', xtype='int', n=2, vals='1,2')
    c.op('*', 'enddef', f=0)
    exp = []
    for M in MEMS:
        exp.append((c.op('*', 'put', f=0, form='vara', v=0, s=[0], c=[2], coll=1, mem=M, vals='1,2'), D.NC_ECHAR, 'put %s to NC_CHAR variable' % M))
        exp.append((c.op('*', 'get', f=0, form='vara', v=0, s=[0], c=[2], coll=1, mem=M), D.NC_ECHAR, 'get NC_CHAR variable as %s' % M))
        exp.append((c.op('*', 'get_att', f=0, v=-1, name='ta', mem=M), D.NC_ECHAR, 'get text attribute as %s' % M))
    exp.append((c.op('*', 'put', f=0, form='vara', v=1, s=[0], c=[2], coll=1, mem='text', vals='65,66'), D.NC_ECHAR, 'put text to NC_INT variable'))
    exp.append((c.op('*', 'get', f=0, form='vara', v=1, s=[0], c=[2], coll=1, mem='text'), D.NC_ECHAR, 'get NC_INT variable as text'))
    exp.append((c.op('*', 'get_att', f=0, v=-1, name='na', mem='text'), D.NC_ECHAR, 'get numeric attribute as text'))
    exp.append((c.op('*', 'put', f=0, form='vara', v=0, s=[0], c=[2], coll=1, mem='text', vals='72,105'), 0, 'put text to NC_CHAR variable'))
    lg = c.op('*', 'get', f=0, form='vara', v=0, s=[0], c=[2], coll=1, mem='text')
    exp.append((lg, 0, 'get text'))
    c.op('*', 'close', f=0)
    return c, exp, lg


def main(tier=None):
    ck = Check('C09', 'exploration', tier)
    b = build.build('plain')
    thorough = ck.tier == 'thorough'
    stride16 = 1 if thorough else 2
    allc = []
    for fmt in ((1, 2, 5) if thorough else (2, 5)): allc += build_var_cases(fmt, stride16) + build_att_cases(fmt)
    chars = [build_char_cases(fmt) for fmt in (1, 5)]
    results = runner.run_cases(b['vx'], [x[0] for x in allc] + [x[0] for x in chars], batch=2, timeout=600)
    nconv = 0; pairs = set()
    for (c, ctx, X, fmt), r in zip(allc, results):
        ck.cov['evaluations'] += 1
        if r.status != 'ok':
            ck.violation((r.status, 'conversion', first_frame(r.detail)), c.text()[:20000], c.name + ': ' + r.detail[:600]); continue
        xd = C.EXT[X]
        for ent in ctx:
            (direction, M, vals, l1, l2, api) = ent[:6]
            iget_rc = None
            if direction == 'iget':
                w = r.r(0, ent[6]); stv = w.ints('st') or [w.rc]
                iget_rc = stv[0] if stv[0] != 0 else w.rc
                direction = 'get'
            md = C.MEM[M]
            exempt = fmt < 5 and X == D.NC_BYTE and M == 'uchar'
            o1 = r.r(0, l1); o2 = r.r(0, l2)
            nconv += len(vals); pairs.add((fmt, X, M, direction, api == 'att'))
            obj = 'attribute' if api == 'att' else 'variable'
            if direction == 'put':
                own = ent[6].get('fill') if len(ent) > 6 and isinstance(ent[6], dict) else None
                src, dst, rc, got, fills, bits = md, xd, o1.rc, o2.vals(), ([own] if own is not None else [C.EXT_FILL[X]]), xd[1]
                if o2.rc != 0:
                    ck.violation(('rc', 'readback', obj), c.text()[:20000], '%s: natural-type read-back failed rc=%d' % (c.name, o2.rc)); continue
            else:
                src, dst, rc, got, fills, bits = xd, md, (o2.rc if iget_rc is None else iget_rc), o2.vals(), C.MEM_FILL[M], md[1]
                if o1.rc != 0:
                    ck.violation(('rc', 'natural put', obj), c.text()[:20000], '%s: natural-type write of the source values failed rc=%d (mem %s)' % (c.name, o1.rc, M)); continue
            if direction == 'get' and o2.get('guard') not in (None, '0'):
                ck.violation(('guard', 'get', M), c.text()[:20000], c.name + ': read wrote outside the buffer'); continue
            v = judge_elements(vals, got, rc, src, dst, exempt, fills, bits)
            ck.outcomes.add((X, M, direction, rc))
            if v:
                kind = 'float' if src[0] == 'f' else 'int'
                ck.violation((v[0], '%s %s' % (direction, obj), '%s source -> %s destination' % (kind, 'float' if dst[0] == 'f' else 'int')), c.text()[:20000],
                             '%s: %s %s ext=%s mem=%s api=%s: %s' % (c.name, direction, obj, D.XT_NAME[X], M, api, v[1]))
    for (c, exp, lg), r in zip(chars, results[len(allc):]):
        ck.cov['evaluations'] += 1
        if r.status != 'ok': ck.violation((r.status, 'char', first_frame(r.detail)), c.text(), c.name + ': ' + r.detail[:500]); continue
        for ln, want, what in exp:
            if r.rc(0, ln) != want: ck.violation(('rc', 'text vs numeric', 'NC_ECHAR'), c.text(), '%s: %s returned %d, expected %d' % (c.name, what, r.rc(0, ln), want))
        if r.r(0, lg).vals() != [72, 105]: ck.violation(('value', 'text', 'round trip'), c.text(), c.name + ': text round trip gives %s' % r.r(0, lg).vals())
    ck.cov['distinct_nontrivial'] = len(pairs)
    ck.cov['element_conversions'] = nconv; ck.cov['bulk_calls'] = ck.cov['evaluations']; ck.cov['evaluations'] = nconv
    ck.cov['rule'] = ('all numeric external types x 11 memory types x {put,get} (typed, flexible contiguous, flexible with a strided buffer type, nonblocking strided get) x {variable, attribute (new in define mode, overwritten in data mode, re-read after reopen)} x {CDF-2, CDF-5} (thorough: + CDF-1); source values: all values of 8-bit types, %s values of 16-bit types, and for wider types the closed '
                      'boundary set (bounds of both types +-2, 0, +-1, 2^k and 2^k+-1 up to 2^64, fractional fringes, FLT_MAX and neighbours, DBL_MAX, subnormals, +-0.0, NaN, +-Inf); exact oracle with Python integers/fractions; '
                      'distinct_nontrivial = distinct (format, external type, memory type, direction, object) combinations' % ('all' if stride16 == 1 else 'every 2nd plus boundary'))
    ck.sample(allc[0][0].text()[:1500])
    ck.assumptions += ['two-valued zones (fractional fringe of an integer destination, doubles rounding to FLT_MAX, +-Inf to float) accept either the exact converted value or NC_ERANGE + fill, nothing else',
                       'NC_FILL of memory type long: INT64 or INT fill accepted']
    runner.cleanup()
    return ck.finish(min_eval=40, min_outcomes=30)


if __name__ == '__main__':
    sys.exit(main(sys.argv[1] if len(sys.argv) > 1 else None))
