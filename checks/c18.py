"""C18 Format size limits are enforced and 64-bit offsets are addressed correctly — threshold products + sparse-file accesses."""
import itertools, sys, os, struct
sys.path.insert(0, os.path.dirname(os.path.dirname(os.path.abspath(__file__))))
from engine import build, runner, cdf, fileck
from engine.common import Check
from engine.runner import Case
from engine.script import first_frame
from engine.model import data as D

G31 = 1 << 31; G32 = 1 << 32; G63 = 1 << 63
TIGHT = 'nc_header_align_size=4;nc_var_align_size=4;nc_record_align_size=4'

# size classes: name -> (bytes, xtype, dims (non-record part))   several factorisations
def size_classes(fmt):
    C = {'small': [(1000, D.NC_BYTE, [1000])]}
    C['a31-m8'] = [(G31 - 8, D.NC_BYTE, [G31 - 8]), (G31 - 8, D.NC_INT, [2, (G31 - 8) // 8])]
    C['a31-m4'] = [(G31 - 4, D.NC_BYTE, [G31 - 4]), (G31 - 4, D.NC_SHORT, [(G31 - 4) // 2])]
    C['a31'] = [(G31, D.NC_BYTE, [2, 1 << 30]), (G31, D.NC_INT, [1 << 29])]
    C['near31'] = [(G31 - 64, D.NC_BYTE, [G31 - 64])]                         # not too large itself, but pushes the next begin over 2 GiB
    C['far31'] = [(G31 - (1 << 17), D.NC_BYTE, [G31 - (1 << 17)])]
    if fmt >= 2:
        C['a32-m8'] = [(G32 - 8, D.NC_BYTE, [4, (1 << 30) - 2]), (G32 - 8, D.NC_DOUBLE, [(G32 - 8) // 8])]
        C['a32-m4'] = [(G32 - 4, D.NC_BYTE, [4, (1 << 30) - 1]), (G32 - 4, D.NC_INT, [(G32 - 4) // 4])]
        C['a32'] = [(G32, D.NC_BYTE, [4, 1 << 30]), (G32, D.NC_SHORT, [2, 1 << 30])]
    if fmt == 5:
        C['b40'] = [(1 << 40, D.NC_INT, [1 << 38])]
        C['a63-m8'] = [(G63 - 8, D.NC_DOUBLE, [(1 << 60) - 1])]
        C['a63-m4'] = [(G63 - 4, D.NC_INT, [(1 << 61) - 1])]
        C['a63'] = [(G63, D.NC_DOUBLE, [1 << 60])]
    return C


def expected_enddef(fmt, vars_):
    """vars_: list of (kind 'F'|'R', bytes).  Returns (expected rc set at enddef, may def_var already fail?)"""
    vmax = {1: G31 - 4, 2: G32 - 4, 5: G63 - 4}[fmt]
    large = [b > vmax for k, b in vars_]
    if fmt == 5:
        return ({D.NC_EVARSIZE} if any(large) else {0})
    fixed = [i for i, (k, b) in enumerate(vars_) if k == 'F']; recs = [i for i, (k, b) in enumerate(vars_) if k == 'R']
    lf = [i for i in fixed if large[i]]; lr = [i for i in recs if large[i]]
    if len(lf) > 1 or (lf and lf[0] != fixed[-1]) or (lf and recs): return {D.NC_EVARSIZE}
    if len(lr) > 1 or (lr and lr[0] != recs[-1]): return {D.NC_EVARSIZE}
    if fmt == 1:
        # every variable must begin below 2 GiB; header extent is a few hundred bytes (tight alignment)
        pos = 200
        for i in fixed + recs:
            if pos > G31 - 1: return {D.NC_EVARSIZE}
            pos += (vars_[i][1] + 3) // 4 * 4
    return {0}


def gen_define(fmts, maxvars, quick):
    cases = []
    for fmt in fmts:
        C = size_classes(fmt)
        names = list(C)
        if quick: names = [n for n in names if n not in ('a31-m8', 'a32-m8', 'a63-m8')]
        for nv in range(1, maxvars + 1):
            for kinds in itertools.product('FR', repeat=nv):
                for sizes in itertools.product(names, repeat=nv):
                    if nv == 3 and sum(1 for s in sizes if s != 'small') > 2: continue
                    if nv == 3 and quick and sizes[0] != 'small' and sizes[1] != 'small' and sizes[2] != 'small': continue
                    big5 = [i for i, s in enumerate(sizes) if s.startswith('a63') or s == 'b40']
                    # CDF-5: a huge variable must be last in file order, otherwise later offsets leave the 63-bit range (not a rule the property states)
                    order = [i for i in range(nv) if kinds[i] == 'F'] + [i for i in range(nv) if kinds[i] == 'R']
                    if any(s.startswith('a63') for s in sizes) and (len([s for s in sizes if s.startswith('a63')]) > 1 or not sizes[order[-1]].startswith('a63')): continue
                    for fi, via_redef in [(f_, False) for f_ in range(2 if not quick else 1)] + ([(0, True)] if nv >= 2 else []):
                        # via_redef: the last variable is added in a later define-mode session (header space reserved, so no data moves)
                        if via_redef and expected_enddef(fmt, [(kinds[i], C[sizes[i]][0][0]) for i in range(nv - 1)]) != {0}: continue
                        c = Case('DEF-f%d-%s-%s-%d%s' % (fmt, ''.join(kinds), '.'.join(sizes), fi, '-redef' if via_redef else ''), 1)
                        c.op('*', 'create', f=0, path='a.nc', fmt=fmt, hints=TIGHT)
                        c.op('*', 'def_dim', f=0, name='t', unlim=1)
                        nd = 1; lines = []; vv = []
                        for i in range(nv):
                            if via_redef and i == nv - 1:
                                lines.append(c.op('*', '_enddef', f=0, h_minfree=2048, v_align=4, v_minfree=0, r_align=4))
                                lines.append(c.op('*', 'redef', f=0))
                            cls = C[sizes[i]]; b_, xt, dims = cls[fi % len(cls)]
                            dimids = []
                            for L in dims:
                                ld = c.op('*', 'def_dim', f=0, name='d%d' % nd, len=L); dimids.append(nd); nd += 1
                            lv = c.op('*', 'def_var', f=0, name='v%d' % i, xtype=D.XT_NAME[xt], dims=([0] if kinds[i] == 'R' else []) + dimids)
                            lines.append(lv); vv.append((kinds[i], b_))
                        le = c.op('*', 'enddef', f=0)
                        c.op('*', 'abort', f=0)
                        cases.append((c, lines, le, fmt, vv))
    return cases


def gen_dimlen(fmts):
    """dimension lengths around 2^31-1, 2^32-1, 2^63-1 and negative"""
    cases = []
    for fmt in fmts:
        c = Case('DIM-f%d' % fmt, 1); exp = []
        c.op('*', 'create', f=0, path='a.nc', fmt=fmt)
        for k, L in enumerate([G31 - 2, G31 - 1, G31, G31 + 1, G32 - 1, G32, G63 - 1, -1, -5]):
            ln = c.op('*', 'def_dim', f=0, name='d%d' % k, len=L)
            lim = {1: G31 - 1, 2: G31 - 1, 5: G63 - 1}[fmt]
            exp.append((ln, L, {0} if 0 <= L <= lim else {D.NC_EDIMSIZE}))
        c.op('*', 'abort', f=0)
        cases.append((c, exp))
    return cases


# ---------------------------------------------------------------- large-offset accesses on sparse files
BIGVARS = [
    # (name, fmt, [(small first var?)], xtype, fixed dims or record inner dims, isrec)
    ('f1-byte', 1, D.NC_BYTE, [G31 - 8], False),
    ('f2-short-3x2e30', 2, D.NC_SHORT, [3, 1 << 30], False),
    ('f5-int-1d', 5, D.NC_INT, [G32 + 16], False),
    ('f5-int-slow', 5, D.NC_INT, [G31 + 8, 2], False),
    ('f5-int-fast', 5, D.NC_INT, [2, G31 + 8], False),
    ('f2-rec-int', 2, D.NC_INT, [1 << 29], True),
    ('f5-rec-short', 5, D.NC_SHORT, [G31 + 4], True),
]


def targets(dims, isrec, xsz, quick):
    """element index tuples whose byte offset / linear index sit just below, across and just above 2^31 and 2^32"""
    full = ([6] if isrec else []) + dims
    inner = [1] * len(full)
    for d in range(len(full) - 2, -1, -1): inner[d] = inner[d + 1] * full[d + 1]
    total = inner[0] * full[0]
    T = set()
    for thr in (G31, G32):
        for unit in ('index', 'byte'):
            lin0 = thr if unit == 'index' else thr // xsz
            for d in (-2, -1, 0, 1):
                lin = lin0 + d
                if 0 <= lin < total - 2: T.add(lin)
    out = []
    for lin in sorted(T):
        idx = []; r = lin
        for d in range(len(full)):
            idx.append(r // inner[d]); r %= inner[d]
        out.append((lin, idx))
    if quick: out = out[::2]
    return full, inner, out


def gen_pairs(nps):
    """two contiguous nonblocking requests completed by one wait whose file offsets differ by the length of the first plus a
    multiple of 2^31 / 2^32 (the merge of adjacent requests must compare 64-bit distances), writes and reads"""
    cases = []
    for (name, fmt, xt, nelems) in [('f5-byte', 5, D.NC_BYTE, 3 * G32 + 64), ('f5-int', 5, D.NC_INT, G32 + 64), ('f5-short', 5, D.NC_SHORT, G32 + G31 + 64)]:
        xsz = D.XT_SIZE[xt]; mem = D.XT_MEM[xt]
        for np in nps:
            for L in (2, 5):
                for mult, unit in ((1, G32), (2, G32), (1, G31), (3, G31)):
                    gap = mult * unit
                    if gap % xsz: continue
                    second = 8 + L + gap // xsz
                    if second + L > nelems: continue
                    for kind in ('iput', 'bput'):
                        c = Case('PAIR-%s-np%d-L%d-%dx%s-%s' % (name, np, L, mult, 'G32' if unit == G32 else 'G31', kind), np)
                        c.op('*', 'create', f=0, path='a.nc', fmt=fmt, hints=TIGHT)
                        c.op('*', 'def_dim', f=0, name='d', len=nelems)
                        c.op('*', 'def_dim', f=0, name='s', len=4)
                        c.op('*', 'def_var', f=0, name='big', xtype=D.XT_NAME[xt], dims=[0])
                        c.op('*', 'def_var', f=0, name='after', xtype='int', dims=[1])
                        c.op('*', 'enddef', f=0)
                        if kind == 'bput': c.op('*', 'buffer_attach', f=0, size=1024)
                        v1 = [(3 * j) % 50 + 1 for j in range(L)]; v2 = [(5 * j) % 50 + 60 for j in range(L)]
                        r0 = np - 1
                        ctx = dict(L=L, first=8, second=second, v1=v1, v2=v2, rank=r0, lines=[])
                        for rr in range(np):
                            if rr == r0:
                                ctx['lines'].append(c.op(rr, 'put', f=0, form='vara', v=0, s=[8], c=[L], mem=mem, vals=v1, nb=kind[0], req=0))
                                ctx['lines'].append(c.op(rr, 'put', f=0, form='vara', v=0, s=[second], c=[L], mem=mem, vals=v2, nb=kind[0], req=1))
                                ctx['lines'].append(c.op(rr, 'wait', f=0, ids=['q0', 'q1'], all=1))
                            else: c.op(rr, 'wait', f=0, all=1, num=0)
                        c.op('*', 'sync', f=0)
                        # read back: both blocks with blocking reads, the elements right behind the first block, then both with one iget pair
                        ctx['g1'] = c.op('*', 'get', f=0, form='vara', v=0, s=[8], c=[L], coll=1, mem=mem)
                        ctx['g2'] = c.op('*', 'get', f=0, form='vara', v=0, s=[second], c=[L], coll=1, mem=mem)
                        ctx['gmid'] = c.op('*', 'get', f=0, form='vara', v=0, s=[8 + L], c=[L], coll=1, mem=mem)
                        for rr in range(np):
                            c.op(rr, 'get', f=0, form='vara', v=0, s=[8], c=[L], mem=mem, nb='i', req=2)
                            c.op(rr, 'get', f=0, form='vara', v=0, s=[second], c=[L], mem=mem, nb='i', req=3)
                            c.op(rr, 'wait', f=0, ids=['q2', 'q3'], all=1)
                        ctx['r1'] = c.op('*', 'rbuf', req=2); ctx['r2'] = c.op('*', 'rbuf', req=3)
                        if kind == 'bput': c.op('*', 'buffer_detach', f=0)
                        c.op('*', 'close', f=0)
                        c.op(0, 'unlink', path='a.nc')
                        cases.append((c, ctx))
    return cases


def gen_strides(nps):
    """blocking strided accesses whose byte step in the FASTEST dimension is just below / at / above 2^31 and 2^32 (fixed-size
    1-D variables), and a 1-D record variable whose records are more than 1 GiB apart accessed with stride 2"""
    cases = []
    for (name, fmt, xt, nelems) in [('f5-byte', 5, D.NC_BYTE, 2 * G32 + 64), ('f5-int', 5, D.NC_INT, G32 + 64), ('f2-short-last', 2, D.NC_SHORT, G31 - 8)]:
        xsz = D.XT_SIZE[xt]; mem = D.XT_MEM[xt]
        steps = sorted(set(b // xsz for b in (G31 - 4, G31, G31 + 4, G32 - 4, G32, G32 + 12) if b % xsz == 0))
        for np in nps:
            for st in steps:
                cnt = 2
                if 5 + st * (cnt - 1) + 1 > nelems: continue
                for coll in (1, 0):
                    c = Case('STRIDE-%s-np%d-st%d-c%d' % (name, np, st, coll), np)
                    c.op('*', 'create', f=0, path='a.nc', fmt=fmt, hints=TIGHT)
                    c.op('*', 'def_dim', f=0, name='d', len=nelems); c.op('*', 'def_dim', f=0, name='s', len=4)
                    c.op('*', 'def_var', f=0, name='big', xtype=D.XT_NAME[xt], dims=[0]); c.op('*', 'def_var', f=0, name='after', xtype='int', dims=[1])
                    c.op('*', 'enddef', f=0)
                    if not coll: c.op('*', 'begin_indep', f=0)
                    r0 = np - 1; vals = [11, 22]
                    ctx = dict(kind='fixed', rank=r0, vals=vals, first=5, second=5 + st, wrapped=5 + (st * xsz % G32) // xsz, coll=coll)
                    for rr in range(np):
                        if rr == r0: ctx['put'] = c.op(rr, 'put', f=0, form='vars', v=0, s=[5], c=[cnt], st=[st], coll=coll, mem=mem, vals=vals)
                        elif coll: c.op(rr, 'put', f=0, form='vars', v=0, s=[0], c=[0], st=[1], coll=1, mem=mem)
                    if not coll: c.op('*', 'end_indep', f=0)
                    c.op('*', 'sync', f=0)
                    ctx['g1'] = c.op('*', 'get', f=0, form='vara', v=0, s=[5], c=[1], coll=1, mem=mem)
                    ctx['g2'] = c.op('*', 'get', f=0, form='vara', v=0, s=[5 + st], c=[1], coll=1, mem=mem)
                    ctx['gs'] = c.op('*', 'get', f=0, form='vars', v=0, s=[5], c=[cnt], st=[st], coll=1, mem=mem)
                    ctx['gw'] = c.op('*', 'get', f=0, form='vara', v=0, s=[ctx['wrapped']], c=[1], coll=1, mem=mem) if ctx['wrapped'] not in (5, 5 + st) else None
                    c.op('*', 'close', f=0); c.op(0, 'unlink', path='a.nc')
                    cases.append((c, ctx))
    # 1-D record variable next to a record variable of 1 GiB per record: consecutive records of r1 are 1 GiB + 4 bytes apart
    for np in nps:
        for coll in (1, 0):
            c = Case('STRIDE-rec-np%d-c%d' % (np, coll), np)
            c.op('*', 'create', f=0, path='a.nc', fmt=2, hints=TIGHT)
            c.op('*', 'def_dim', f=0, name='t', unlim=1); c.op('*', 'def_dim', f=0, name='d', len=1 << 28)
            c.op('*', 'def_var', f=0, name='bigrec', xtype='int', dims=[0, 1]); c.op('*', 'def_var', f=0, name='r1', xtype='int', dims=[0])
            c.op('*', 'enddef', f=0)
            if not coll: c.op('*', 'begin_indep', f=0)
            r0 = np - 1; vals = [31, 32, 33]
            ctx = dict(kind='rec', rank=r0, vals=vals, coll=coll)
            for rr in range(np):
                if rr == r0: ctx['put'] = c.op(rr, 'put', f=0, form='vars', v=1, s=[0], c=[3], st=[2], coll=coll, mem='int', vals=vals)
                elif coll: c.op(rr, 'put', f=0, form='vars', v=1, s=[0], c=[0], st=[1], coll=1, mem='int')
            if not coll: c.op('*', 'end_indep', f=0)
            c.op('*', 'sync', f=0)
            ctx['gs'] = c.op('*', 'get', f=0, form='vars', v=1, s=[0], c=[3], st=[2], coll=1, mem='int')
            ctx['ga'] = c.op('*', 'get', f=0, form='vara', v=1, s=[0], c=[5], coll=1, mem='int')
            c.op('*', 'close', f=0); c.op(0, 'unlink', path='a.nc')
            cases.append((c, ctx))
    return cases


def gen_blocks(nps):
    """sub-blocks (count > 1 in several dimensions) of variables with three and more dimensions one of which exceeds 2^31-1: the
    file type of such a request is built by hand from nested vectors; every row of the block is then read with a contiguous get"""
    cases = []
    for (name, dims) in [('3d-fast', [3, 4, G31 + 16]), ('3d-mid', [3, G31 + 16, 2]), ('4d-fast', [2, 3, 2, G31 + 16])]:
        nd = len(dims)
        for np in nps:
            for big_at in ('low', 'high'):
                c = Case('BLOCK-%s-np%d-%s' % (name, np, big_at), np)
                c.op('*', 'create', f=0, path='a.nc', fmt=5, hints=TIGHT)
                for k, L in enumerate(dims): c.op('*', 'def_dim', f=0, name='d%d' % k, len=L)
                c.op('*', 'def_var', f=0, name='big', xtype='byte', dims=list(range(nd)))
                c.op('*', 'enddef', f=0)
                bigd = dims.index(G31 + 16)
                st = [0] * nd; ct = [2] * nd
                for d in range(nd):
                    if d == bigd: st[d] = 5 if big_at == 'low' else G31 + 3; ct[d] = 3
                    else: st[d] = dims[d] - 2
                n = 1
                for x in ct: n *= x
                vals = [(7 * j) % 100 + 1 for j in range(n)]
                r0 = np - 1
                ctx = dict(rank=r0, rows=[])
                for rr in range(np):
                    if rr == r0: ctx['put'] = c.op(rr, 'put', f=0, form='vara', v=0, s=st, c=ct, coll=1, mem='schar', vals=vals)
                    else: c.op(rr, 'put', f=0, form='vara', v=0, s=st, c=[0] * nd, coll=1, mem='schar')
                c.op('*', 'sync', f=0)
                # rows along the last dimension: contiguous requests
                last = nd - 1
                outer = [range(ct[d]) for d in range(last)]
                for combo in itertools.product(*outer):
                    s2 = [st[d] + combo[d] for d in range(last)] + [st[last]]
                    c2 = [1] * last + [ct[last]]
                    lin = 0
                    for d in range(last): lin = lin * ct[d] + combo[d]
                    want = vals[lin * ct[last]:(lin + 1) * ct[last]]
                    ctx['rows'].append((c.op('*', 'get', f=0, form='vara', v=0, s=s2, c=c2, coll=1, mem='schar'), s2, want))
                ctx['whole'] = (c.op('*', 'get', f=0, form='vara', v=0, s=st, c=ct, coll=1, mem='schar'), vals)
                c.op('*', 'close', f=0); c.op(0, 'unlink', path='a.nc')
                cases.append((c, ctx))
    return cases


def gen_access(quick, nps):
    cases = []
    for (name, fmt, xt, dims, isrec) in BIGVARS:
        xsz = D.XT_SIZE[xt]; mem = D.XT_MEM[xt]
        full, inner, tg = targets(dims, isrec, xsz, quick)
        for np in nps:
            for mode in (['blocking', 'nonblocking', 'strided'] if not quick else ['blocking', 'nonblocking']):
                c = Case('ACC-%s-np%d-%s' % (name, np, mode), np)
                c.op('*', 'create', f=0, path='a.nc', fmt=fmt, hints=TIGHT)
                c.op('*', 'def_dim', f=0, name='t', unlim=1)
                c.op('*', 'def_dim', f=0, name='s', len=5)
                dimids = []
                for k, L in enumerate(dims): c.op('*', 'def_dim', f=0, name='d%d' % k, len=L); dimids.append(2 + k)
                c.op('*', 'def_var', f=0, name='small', xtype='int', dims=[1])
                if isrec: c.op('*', 'def_var', f=0, name='rs', xtype='short', dims=[0])
                c.op('*', 'def_var', f=0, name='big', xtype=D.XT_NAME[xt], dims=([0] if isrec else []) + dimids)
                vid = 2 if isrec else 1
                le = c.op('*', 'enddef', f=0)
                ls = c.op('*', 'sweep', f=0, nomfp=1)
                ctx = []; written = {}
                for k, (lin, idx) in enumerate(tg):
                    nd = len(full)
                    last = nd - 1
                    span = 2 if idx[last] + 2 <= full[last] else 1
                    ct = [1] * nd; ct[last] = span
                    vals = [(k * 2 + 1) % 100 + 1, (k * 2 + 2) % 100 + 1][:span]
                    r = k % np
                    if mode == 'blocking':
                        lp = c.op(r, 'put', f=0, form='vara', v=vid, s=idx, c=ct, coll=0, mem=mem, vals=vals) if False else None
                        for rr in range(np):
                            if rr == r: lp = c.op(rr, 'put', f=0, form='vara', v=vid, s=idx, c=ct, coll=1, mem=mem, vals=vals)
                            else: c.op(rr, 'put', f=0, form='vara', v=vid, s=idx, c=[0] * nd, coll=1, mem=mem)
                    elif mode == 'nonblocking':
                        for rr in range(np):
                            if rr == r:
                                lp = c.op(rr, 'put', f=0, form='vara', v=vid, s=idx, c=ct, mem=mem, vals=vals, nb='i', req=0)
                                c.op(rr, 'wait', f=0, ids=['q0'], all=1)
                            else: c.op(rr, 'wait', f=0, all=1, num=0)
                    else:
                        # two elements a huge stride apart along the slowest dimension (hindexed displacement beyond 32 bits)
                        if full[0] < 3: continue
                        st = [1] * nd; st[0] = full[0] - 1 - idx[0] if idx[0] < full[0] - 1 else 1
                        if st[0] < 1: continue
                        ct2 = [1] * nd; ct2[0] = 2 if idx[0] + st[0] < full[0] else 1
                        vals = vals[:1] * ct2[0]
                        for rr in range(np):
                            if rr == r: lp = c.op(rr, 'put', f=0, form='vars', v=vid, s=idx, c=ct2, st=st, coll=1, mem=mem, vals=vals)
                            else: c.op(rr, 'put', f=0, form='vars', v=vid, s=idx, c=[0] * nd, st=st, coll=1, mem=mem)
                        ct = ct2; span = 1
                    if mode == 'strided':
                        written[lin] = vals[0]
                        if ct2[0] == 2: written[lin + st[0] * inner[0]] = vals[0]
                    else:
                        for j in range(span): written[lin + j] = vals[j]
                    c.op('*', 'sync', f=0)
                    lg = c.op('*', 'get', f=0, form='vara', v=vid, s=idx, c=[1] * (nd - 1) + [span] if mode != 'strided' else [1] * nd, coll=1, mem=mem)
                    ctx.append(dict(lin=lin, idx=idx, span=span if mode != 'strided' else 1, vals=vals, put=lp, get=lg, rank=r))
                for x in ctx: x['final'] = [written[x['lin'] + j] for j in range(x['span'])]      # later accesses may overlap earlier ones
                c.op('*', 'close', f=0)
                c.op('*', 'barrier')
                # raw bytes at the model-computed positions (filled in by the judge from inq_varoffset / inq_recsize)
                c.op('*', 'open', f=0, path='a.nc', write=0)
                for x in ctx:
                    x['get2'] = c.op('*', 'get', f=0, form='vara', v=vid, s=x['idx'], c=[1] * (len(full) - 1) + [x['span']], coll=1, mem=mem)
                c.op('*', 'close', f=0)
                lsn = c.op(0, 'snap', path='a.nc', ranges=[0, 1024])
                c.op(0, 'unlink', path='a.nc')
                cases.append((c, dict(le=le, ls=ls, ctx=ctx, vid=vid, isrec=isrec, xsz=xsz, inner=inner, full=full, xt=xt, snap=lsn)))
    return cases


def main(tier=None):
    ck = Check('C18', 'exploration', tier)
    b = build.build('plain')
    thorough = ck.tier == 'thorough'
    dcases = gen_define((1, 2, 5), 3, not thorough)
    dims = gen_dimlen((1, 2, 5))
    acc = gen_access(not thorough, (1, 2) if thorough else (1,))
    pairs = gen_pairs((1, 2) if thorough else (1,))
    res = runner.run_cases(b['vx'], [x[0] for x in dcases] + [x[0] for x in dims] + [x[0] for x in acc], batch=40, timeout=900)
    pres = runner.run_cases(b['vx'], [x[0] for x in pairs], batch=8, timeout=900)
    for (c, x), r in zip(pairs, pres):
        ck.cov['evaluations'] += 1
        if r.status != 'ok': ck.violation((r.status, 'request pair', first_frame(r.detail)), c.text(), c.name + ': ' + r.detail[:500]); continue
        bad = None
        for ln in x['lines']:
            o = r.r(x['rank'], ln)
            if o is not None and (o.rc != 0 or any(v != 0 for v in (o.ints('st') or []))): bad = 'posting / wait returned %d %s' % (o.rc, o.ints('st'))
        for k in r.ranks:
            if bad: break
            for ln, want, what in ((x['g1'], x['v1'], 'first block'), (x['g2'], x['v2'], 'second block'), (x['gmid'], [0] * x['L'], 'elements right behind the first block (never written)'),
                                   (x['r1'], x['v1'], 'first block through an iget pair'), (x['r2'], x['v2'], 'second block through an iget pair')):
                o = r.r(k, ln)
                if o is None or o.rc != 0 or o.vals() != want:
                    bad = 'rank %d reads %s as %s (rc=%s), expected %s' % (k, what, o.vals() if o is not None else None, o.rc if o is not None else None, want); break
        if bad: ck.violation(('value', 'request pair', 'offsets 2^31/2^32 multiples apart'), c.text(), '%s: blocks at elements %d and %d: %s' % (c.name, x['first'], x['second'], bad))
        ck.outcomes.add(('pair', c.name))
    ck.cov['request_pairs'] = len(pairs)
    strides = gen_strides((1, 2) if thorough else (1,))
    sres = runner.run_cases(b['vx'], [x[0] for x in strides], batch=8, timeout=900)
    for (c, x), r in zip(strides, sres):
        ck.cov['evaluations'] += 1
        if r.status != 'ok': ck.violation((r.status, 'strided access', first_frame(r.detail)), c.text(), c.name + ': ' + r.detail[:500]); continue
        bad = None
        p_ = r.r(x['rank'], x['put'])
        if p_ is None or p_.rc != 0: bad = 'put_vars returned %s' % (p_.rc if p_ is not None else None)
        for k in r.ranks:
            if bad: break
            if x['kind'] == 'fixed':
                chk = [(x['g1'], [x['vals'][0]], 'first element'), (x['g2'], [x['vals'][1]], 'second element'), (x['gs'], x['vals'], 'both through get_vars')]
                if x['gw'] is not None: chk.append((x['gw'], [0], 'the element at the 32-bit-wrapped distance (never written)'))
            else:
                chk = [(x['gs'], x['vals'], 'records 0, 2, 4 through get_vars'), (x['ga'], [x['vals'][0], None, x['vals'][1], None, x['vals'][2]], 'records 0..4 through get_vara')]
            for ln, want, what in chk:
                o = r.r(k, ln)
                got = o.vals() if o is not None else None
                if o is None or o.rc != 0 or len(got) != len(want) or any(w is not None and g != w for g, w in zip(got, want)):
                    bad = 'rank %d reads %s as %s (rc=%s), expected %s' % (k, what, got, o.rc if o is not None else None, want); break
        if bad: ck.violation(('value', 'strided access', 'byte step around 2^31 / 2^32 in the fastest dimension'), c.text(), '%s: %s' % (c.name, bad))
        ck.outcomes.add(('stride', c.name))
    ck.cov['large_strides'] = len(strides)
    blocks = gen_blocks((1, 2) if thorough else (1,))
    bres = runner.run_cases(b['vx'], [x[0] for x in blocks], batch=6, timeout=900)
    for (c, x), r in zip(blocks, bres):
        ck.cov['evaluations'] += 1
        if r.status != 'ok': ck.violation((r.status, 'sub-block', first_frame(r.detail)), c.text(), c.name + ': ' + r.detail[:500]); continue
        bad = None
        p_ = r.r(x['rank'], x['put'])
        if p_ is None or p_.rc != 0: bad = 'put_vara returned %s' % (p_.rc if p_ is not None else None)
        for k in r.ranks:
            if bad: break
            for ln, s2, want in x['rows']:
                o = r.r(k, ln)
                if o is None or o.rc != 0 or o.vals() != want: bad = 'rank %d reads the row at %s as %s (rc=%s), written %s' % (k, s2, o.vals() if o is not None else None, o.rc if o is not None else None, want); break
            if not bad:
                o = r.r(k, x['whole'][0])
                if o is None or o.rc != 0 or o.vals() != x['whole'][1]: bad = 'rank %d reads the whole block back as %s..., written %s...' % (k, (o.vals() or [])[:8] if o is not None else None, x['whole'][1][:8])
        if bad: ck.violation(('value', 'sub-block', 'dimension above 2^31-1 in a variable of 3+ dimensions'), c.text(), '%s: %s' % (c.name, bad))
        ck.outcomes.add(('block', c.name))
    ck.cov['large_dim_blocks'] = len(blocks)
    for (c, lines, le, fmt, vv), r in zip(dcases, res):
        ck.cov['evaluations'] += 1
        if r.status != 'ok': ck.violation((r.status, 'enddef', first_frame(r.detail)), c.text(), c.name + ': ' + r.detail[:400]); continue
        exp = expected_enddef(fmt, vv)
        drc = [r.rc(0, ln) for ln in lines]
        rc = r.rc(0, le)
        ck.outcomes.add((fmt, rc, tuple(drc)))
        if any(x != 0 for x in drc):
            # refused already at def_var: acceptable exactly when the definitions violate the rules
            if 0 in exp or any(x != D.NC_EVARSIZE for x in drc if x != 0):
                ck.violation(('rc', 'def_var', 'size rule'), c.text(), '%s: def_var returned %s although %s satisfy the rules of CDF-%d' % (c.name, drc, vv, fmt))
            continue
        if rc not in exp:
            ck.violation(('rc', 'enddef', 'accepted' if rc == 0 else 'rejected'), c.text(), '%s: enddef returned %d for variables %s under CDF-%d, rule table says %s' % (c.name, rc, vv, fmt, sorted(exp)))
    for (c, exp), r in zip(dims, res[len(dcases):]):
        ck.cov['evaluations'] += 1
        if r.status != 'ok': ck.violation((r.status, 'def_dim', first_frame(r.detail)), c.text(), c.name + ': ' + r.detail[:400]); continue
        for ln, L, e in exp:
            if r.rc(0, ln) not in e: ck.violation(('rc', 'def_dim', 'dimension length limit'), c.text(), '%s: def_dim(len=%d) returned %d, expected %s' % (c.name, L, r.rc(0, ln), sorted(e)))
    nacc = 0
    for (c, x), r in zip(acc, res[len(dcases) + len(dims):]):
        ck.cov['evaluations'] += 1
        if r.status != 'ok': ck.violation((r.status, 'large offset access', first_frame(r.detail)), c.text(), c.name + ': ' + r.detail[:500]); continue
        if r.rc(0, x['le']) != 0: ck.violation(('rc', 'enddef', 'large variable'), c.text(), c.name + ': enddef returned %d' % r.rc(0, x['le'])); continue
        for t in x['ctx']:
            nacc += 1
            for k in r.ranks:
                p = r.r(k, t['put'])
                if p is not None and p.rc != 0: ck.violation(('rc', 'put', 'large offset'), c.text(), '%s: put at index %s returned %d' % (c.name, t['idx'], p.rc)); break
                for gl, want in ((t['get'], t['vals'][:t['span']]), (t['get2'], t['final'])):
                    g = r.r(k, gl)
                    if g.rc != 0 or g.vals() != want:
                        ck.violation(('value', 'get', 'large offset'), c.text(), '%s: element %s (linear %d) reads %s rc=%d, written %s' % (c.name, t['idx'], t['lin'], g.vals(), g.rc, want)); break
            ck.outcomes.add(('acc', c.name, t['lin']))
        # the header the library wrote for the huge variable, decoded independently: begins, vsize (saturated at 2^32-1 in CDF-1/2) and record size
        sn = r.r(0, x['snap'])
        if sn is not None and sn.rc == 0 and sn.get('hex'):
            try:
                hf = cdf.decode(bytes.fromhex(sn.get('hex')), with_data=False, strict=False)
                lo, _ = fileck.check_layout(hf, r.r(0, x['ls']).json() if x.get('ls') else None)
                lo = [y for y in lo if y[0] in ('vsize', 'recsize', 'begin_overlap', 'begin_unaligned', 'inq_recsize', 'inq_varoffset', 'inq_header_size')]
                if lo: ck.violation(('header', 'large variable', lo[0][0]), c.text(), '%s: header of the file with the large variable: %s' % (c.name, lo[0][1]))
            except cdf.CDFError as e:
                ck.violation(('header', 'large variable', 'decode'), c.text(), '%s: header does not decode: %s' % (c.name, e))
    ck.cov['large_offset_accesses'] = nacc
    ck.cov['distinct_nontrivial'] = len(ck.outcomes)
    ck.cov['rule'] = ('(1) format x 1-3 variables x fixed/record in every order x per-variable byte size just below/at/above 2^31-4, 2^31, 2^32-4, 2^32 (and 2^63-4 for CDF-5; several factorisations) plus sizes that push the next begin over 2 GiB; '
                      'expected NC_NOERR/NC_EVARSIZE from the rule table of the property; dimension lengths around every limit. (2) for 7 large variables (fixed/record, 1-D and 2-D with one dimension > 2^31-1, CDF-1/2/5) elements whose byte offset or '
                      'linear index lies just below/across/above 2^31 and 2^32 are written (blocking, nonblocking, strided with displacement > 32 bits) on sparse files and read back in the same session and after reopen; pairs of contiguous nonblocking requests (iput, bput, iget) completed by one wait whose offsets differ by the length of the first plus 1-3 x 2^31 / 2^32; blocking put/get_vars on 1-D variables with a byte step of 2^31-4 ... 2^32+12 in the fastest dimension, and on a 1-D record variable whose records lie 1 GiB + 4 bytes apart; sub-blocks of 3-D and 4-D variables with one dimension above 2^31-1 (as fastest and as middle dimension), every row read back contiguously')
    ck.sample(dcases[0][0].text()[:800]); ck.sample(acc[0][0].text()[:1500])
    ck.assumptions += ['CDF-5 definitions whose later variables would start beyond 2^63 are not generated', 'sparse files on tmpfs; nothing of the huge extents is ever materialised']
    runner.cleanup()
    return ck.finish(min_eval=100, min_outcomes=10)


if __name__ == '__main__':
    sys.exit(main(sys.argv[1] if len(sys.argv) > 1 else None))
