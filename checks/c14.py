"""C14 API mode state machine and error precedence — BFS over call histories against the reference automaton."""
import sys, os, time
sys.path.insert(0, os.path.dirname(os.path.dirname(os.path.abspath(__file__))))
from engine import build, runner, cdf
from engine.common import Check
from engine.bfs import HistoryBFS, emit_std
from engine.model.filemodel import FileModel, DEF_NEW, DEF_RE, COLL, INDEP, CLOSED
from engine.model import data as D

SETUP_DEFS = [
    dict(op='def_dim', name='t', len=None), dict(op='def_dim', name='x', len=2),
    dict(op='def_var', name='fx', xtype=D.NC_INT, dims=[1]), dict(op='def_var', name='rv', xtype=D.NC_INT, dims=[0, 1]),
    dict(op='put_att', v=-1, name='g', xtype=D.NC_INT, vals=[1, 2]), dict(op='put_att', v=0, name='a', xtype=D.NC_CHAR, vals=b'abcd'),
]
SETUP_DATA = [
    dict(op='put', v=0, start=[0], count=[2], vals=[11, 12], coll=1),
    dict(op='put', v=1, start=[0, 0], count=[2, 2], vals=[21, 22, 23, 24], coll=1),
]


def make_init(kind, fmt=1):
    m = FileModel(fmt)
    ops = list(SETUP_DEFS)
    if kind != 'created': ops += [dict(op='enddef')] + SETUP_DATA + [dict(op='close')]
    for o in ops:
        rcs, st = m.apply(o)
        assert 0 in rcs, (o, rcs)
        m = st
    if kind != 'created':
        m.mode = COLL; m.rdonly = (kind == 'opened_ro')
        for v in m.vars: v['nofill'] = None

    def setup(c, kind=kind, ops=ops, fmt=fmt):
        c.op('*', 'create', f=0, path='a.nc', fmt=fmt)
        for o in ops: emit_std(c, '*', o, None)
        if kind != 'created': c.op('*', 'open', f=0, path='a.nc', write=0 if kind == 'opened_ro' else 1)
    return (kind, setup, m)


def alphabet(m):
    A = []
    # mode-changing calls
    A += [dict(op='enddef'), dict(op='_enddef', h_minfree=0), dict(op='redef'), dict(op='begin_indep'), dict(op='end_indep'), dict(op='close'), dict(op='abort')]
    # one probe per API family
    A += [dict(op='def_dim', name='pd', len=3), dict(op='def_var', name='pv', xtype=D.NC_INT, dims=[1]),
          dict(op='put_att', v=-1, name='pa', xtype=D.NC_INT, vals=[7]),                 # new attribute
          dict(op='put_att', v=-1, name='g', xtype=D.NC_INT, vals=[5, 6]),               # same size
          dict(op='put_att', v=-1, name='g', xtype=D.NC_SHORT, vals=[9]),                # smaller, other type
          dict(op='put_att', v=-1, name='g', xtype=D.NC_INT, vals=[1, 2, 3]),            # larger
          dict(op='put_att', v=-1, name='g', xtype=D.NC_DOUBLE, vals=[1.5, 2.5]),        # same element count, wider type: larger
          dict(op='put_att', v=-1, name='g', xtype=D.NC_BYTE, vals=[1, 2, 3, 4, 5, 6, 7]),  # more elements, narrower type: not larger
          dict(op='del_att', v=-1, name='g'),
          dict(op='rename_var', v=0, name='f'), dict(op='rename_var', v=0, name='fxlonger'),
          dict(op='rename_dim', d=1, name='y'), dict(op='rename_dim', d=1, name='xlonger'),
          dict(op='rename_att', v=0, name='a', newname='b'), dict(op='rename_att', v=0, name='a', newname='along'),
          dict(op='copy_att', v=-1, name='g', v2=0),
          dict(op='set_fill', mode=1), dict(op='def_var_fill', v=1, nofill=0)]
    A += [dict(op='put', v=0, start=[0], count=[2], vals=[31, 32], coll=0), dict(op='put', v=0, start=[1], count=[1], vals=[33], coll=1),
          dict(op='put', v=1, start=[2, 0], count=[1, 2], vals=[41, 42], coll=1),        # grows numrecs
          dict(op='get', v=0, start=[0], count=[2], coll=0), dict(op='get', v=1, start=[0, 0], count=[1, 2], coll=1)]
    A += [dict(op='ipost', kind='iput', v=0, start=[0], count=[1], vals=[51], slot=0), dict(op='ipost', kind='iget', v=0, start=[0], count=[2], slot=1),
          dict(op='ipost', kind='bput', v=0, start=[1], count=[1], vals=[52], slot=2),
          dict(op='wait', all=0), dict(op='wait', all=1), dict(op='cancel'),
          dict(op='sync'), dict(op='sync_numrecs'), dict(op='flush'),
          dict(op='fill_var_rec', v=1, rec=0), dict(op='fill_var_rec', v=0, rec=0),
          dict(op='buffer_attach', size=64), dict(op='buffer_detach')]
    # precedence probes: wrong mode AND bad argument at once
    A += [dict(op='put', v=0, start=[0], count=[1], vals=[1], coll=0, bad='varid'), dict(op='put', v=0, start=[0], count=[1], vals=[1], coll=1, bad='varid'),
          dict(op='put', v=0, start=[0], count=[1], vals=[1], coll=1, bad='coords'), dict(op='put', v=0, start=[0], count=[1], vals=[97], coll=0, bad='char', nel=1),
          dict(op='get', v=0, start=[0], count=[1], coll=0, bad='edge'), dict(op='get', v=0, start=[0], count=[1], coll=1, bad='varid'),
          dict(op='ipost', kind='iput', v=0, start=[0], count=[1], vals=[1], bad='varid', slot=3)]
    return A


def extra_judge(node, o, r, lines, newm, rc):
    hl, s0, b0, lo, s1, b1 = lines
    if o['op'] not in ('close', 'abort'): return None
    snap0 = r.r(0, b0); snap1 = r.r(0, b1)
    if o['op'] == 'abort' and node.model.mode == DEF_NEW:
        if snap1.rc == 0: return (('abort_new_file', 'abort', 'file still exists'), 'aborting a freshly created file left it on disk (size %s)' % snap1.get('size'))
        return None
    if o['op'] == 'abort' and node.model.mode == DEF_RE:
        if snap0.get('hex') != snap1.get('hex'):
            return (('abort_redef', 'abort', 'file bytes changed'), 'file differs from its content when define mode was re-entered')
    # whatever was closed must decode to the model's schema and data
    if snap1.rc != 0: return (('file_missing', o['op'], node.model.mode), 'file missing after %s' % o['op'])
    try:
        f = cdf.decode(bytes.fromhex(snap1.get('hex', '')))
    except cdf.CDFError as e:
        return (('decode', o['op'], node.model.mode), 'file left by %s does not decode: %s' % (o['op'], e))
    if [d.name for d in f.dims] != [d[0] for d in newm.dims] or [v.name for v in f.vars] != [v['name'] for v in newm.vars] or [a.name for a in f.gatts] != [a[0] for a in newm.gatts]:
        return (('schema_on_disk', o['op'], node.model.mode), 'file schema dims=%s vars=%s gatts=%s, model dims=%s vars=%s gatts=%s' % (
            [d.name for d in f.dims], [v.name for v in f.vars], [a.name for a in f.gatts], [d[0] for d in newm.dims], [v['name'] for v in newm.vars], [a[0] for a in newm.gatts]))
    if any(v.is_record for v in f.vars) and f.numrecs != newm.numrecs:
        return (('numrecs_on_disk', o['op'], node.model.mode), 'file numrecs=%d, model %d' % (f.numrecs, newm.numrecs))
    for v, dd in newm.data.items():
        if v >= len(f.vars): continue
        got = f.data.get(v) or []
        for i, x in dd.items():
            if i < len(got) and got[i] is not None and not D.same(x, got[i]):
                return (('data_on_disk', o['op'], node.model.mode), 'var %d element %d on disk %r, model %r' % (v, i, got[i], x))
    led = None
    for ln in sorted(r.ranks[0]):
        if r.ranks[0][ln].get('op') == 'ledger': led = r.ranks[0][ln]
    if led is not None and (led.get('malloc') != '0' or led.get('nopen') != '0' or any(led.get(k) != '0' for k in ('types', 'comms', 'infos', 'files', 'reqs'))):
        return (('leak', o['op'], ','.join(k for k in ('malloc', 'types', 'comms', 'infos', 'files', 'reqs') if led.get(k) != '0')), 'after %s: ledger %s' % (o['op'], dict(led)))
    return None


def main(tier=None):
    ck = Check('C14', 'model_checking', tier)
    b = build.build('plain')
    thorough = ck.tier == 'thorough'
    inits = [make_init('created'), make_init('opened_rw'), make_init('opened_ro')]
    bfs = HistoryBFS(ck, b['vx'], inits, alphabet, maxdepth=4 if thorough else 3, reps=2 if thorough else 1, extra_judge=extra_judge)
    bfs.run(deadline=time.time() + (1500 if thorough else 200))
    if thorough:
        # two ranks in lock-step, CDF-5
        ck2 = ck
        bfs2 = HistoryBFS(ck, b['vx'], [make_init('created', 5), make_init('opened_rw', 5)], alphabet, maxdepth=2, reps=1, np=2, extra_judge=extra_judge)
        bfs2.run(deadline=time.time() + 600)
        ck.cov['states'] += 0
    ck.cov['distinct_nontrivial'] = ck.cov.get('states', 0)
    ck.cov['rule'] = ('BFS over histories of mode-changing calls and one probe per API family (56 letters) from created / opened-rw / opened-ro files; '
                      'a state is the canonical reference-model state (mode, rdonly, schema, data, pending requests, attached buffer); every transition is executed on the real library '
                      'and compared with the automaton (return code in the documented outcome set, rejected call has no effect on inquiry sweep or file bytes, accepted call reaches the predicted state incl. a mode fingerprint)')
    ck.assumptions += ['depth bound %d' % bfs.maxdepth, 'outcome sets follow DESIGN.md Appendix A; where documents do not order two applicable codes both are accepted']
    runner.cleanup()
    return ck.finish(min_eval=300, min_outcomes=40)


if __name__ == '__main__':
    sys.exit(main(sys.argv[1] if len(sys.argv) > 1 else None))
