"""C11 I/O failures are never silently dropped — exhaustive (program, rank, call position, MPI error class) fault enumeration."""
import sys, os, re, time
sys.path.insert(0, os.path.dirname(os.path.dirname(os.path.abspath(__file__))))
from engine import build, runner
from engine.common import Check
from engine.runner import Case
from engine.script import first_frame

CLASSES = dict(MPI_ERR_IO=35, MPI_ERR_NO_SPACE=41, MPI_ERR_ACCESS=20, MPI_ERR_QUOTA=44, MPI_ERR_READ_ONLY=45, MPI_ERR_FILE=30, MPI_ERR_BAD_FILE=23, MPI_ERR_OTHER=16)
QUICK_CLASSES = ['MPI_ERR_IO', 'MPI_ERR_NO_SPACE', 'MPI_ERR_ACCESS']


def base(c, np, hints=None, fill=False, fmt=1):
    c.op('*', 'create', f=0, path='a.nc', fmt=fmt, hints=hints)
    if fill: c.op('*', 'set_fill', f=0, mode=1)
    c.op('*', 'def_dim', name='t', unlim=1); c.op('*', 'def_dim', name='x', len=np * 2)
    c.op('*', 'def_var', name='fx', xtype='int', dims=[1]); c.op('*', 'def_var', name='rv', xtype='int', dims=[0, 1]); c.op('*', 'def_var', name='rs', xtype='short', dims=[0])
    c.op('*', 'put_att', f=0, v=-1, name='g', xtype='int', n=2, vals=[1, 2])


def put_all(c, np, v, rec=None, coll=1, tagbase=10):
    for r in range(np):
        if v == 0: c.op(r, 'put', f=0, form='vara', v=0, s=[2 * r], c=[2], coll=coll, mem='int', vals=[tagbase + 2 * r, tagbase + 2 * r + 1])
        else: c.op(r, 'put', f=0, form='vara', v=1, s=[rec, 2 * r], c=[1, 2], coll=coll, mem='int', vals=[tagbase + 2 * r, tagbase + 2 * r + 1])


def P_enddef(c, np, hints=None):
    base(c, np, hints); c.op('*', 'enddef', f=0); c.op('*', 'close', f=0)

def P_enddef_coll_hdr(c, np): P_enddef(c, np, hints='romio_no_indep_rw=true')

def P_numrecs(c, np):
    base(c, np); c.op('*', 'enddef', f=0)
    put_all(c, np, 1, rec=0); put_all(c, np, 1, rec=2)
    c.op('*', 'sync', f=0); c.op('*', 'close', f=0)

def P_fill(c, np):
    base(c, np, fill=True); c.op('*', 'enddef', f=0)
    c.op('*', 'fill_var_rec', f=0, v=1, rec=0); c.op('*', 'fill_var_rec', f=0, v=1, rec=1)
    c.op('*', 'close', f=0)

def P_redef_move(c, np, hints='nc_header_align_size=4;nc_var_align_size=4'):
    base(c, np, hints); c.op('*', 'enddef', f=0)
    put_all(c, np, 0); put_all(c, np, 1, rec=0); put_all(c, np, 1, rec=1)
    c.op('*', 'redef', f=0)
    c.op('*', 'put_att', f=0, v=-1, name='big', xtype='int', n=40, vals=list(range(40)))
    c.op('*', 'def_var', f=0, name='nr', xtype='short', dims=[0])
    c.op('*', 'enddef', f=0)
    c.op('*', 'close', f=0)

def P_redef_move_multi(c, np):
    """several fixed-size and several record variables are moved one after the other: an error in any of the moves must survive"""
    c.op('*', 'create', f=0, path='a.nc', fmt=1, hints='nc_header_align_size=4;nc_var_align_size=4;nc_record_align_size=4')
    c.op('*', 'def_dim', name='t', unlim=1); c.op('*', 'def_dim', name='x', len=np * 2)
    for i, (n, dd) in enumerate([('f0', [1]), ('f1', [1]), ('f2', [1]), ('r0', [0, 1]), ('r1', [0])]):
        c.op('*', 'def_var', name=n, xtype='int', dims=dd)
    c.op('*', 'enddef', f=0)
    for v in range(3):
        for r in range(np): c.op(r, 'put', f=0, form='vara', v=v, s=[2 * r], c=[2], coll=1, mem='int', vals=[10 * v + 2 * r, 10 * v + 2 * r + 1])
    for rec in range(2):
        for r in range(np): c.op(r, 'put', f=0, form='vara', v=3, s=[rec, 2 * r], c=[1, 2], coll=1, mem='int', vals=[50 + rec, 60 + r])
    c.op('*', 'redef', f=0)
    c.op('*', 'put_att', f=0, v=-1, name='big', xtype='int', n=60, vals=list(range(60)))
    c.op('*', 'def_var', f=0, name='nf', xtype='int', dims=[1])
    c.op('*', 'enddef', f=0)
    c.op('*', 'close', f=0)

def P_redef_move_coll(c, np): P_redef_move(c, np, hints='nc_header_align_size=4;nc_var_align_size=4;romio_no_indep_rw=true')

def P_blocking(c, np):
    base(c, np); c.op('*', 'enddef', f=0)
    put_all(c, np, 0); put_all(c, np, 1, rec=0)
    for r in range(np): c.op(r, 'get', f=0, form='vara', v=0, s=[0], c=[2 * np], coll=1, mem='int')
    c.op('*', 'begin_indep', f=0)
    put_all(c, np, 0, coll=0, tagbase=30); put_all(c, np, 1, rec=1 + 0, coll=0, tagbase=40)
    for r in range(np): c.op(r, 'get', f=0, form='vara', v=0, s=[2 * r], c=[2], coll=0, mem='int')
    c.op('*', 'end_indep', f=0)
    c.op('*', 'close', f=0)

def P_nonblocking(c, np):
    base(c, np); c.op('*', 'enddef', f=0)
    put_all(c, np, 0); put_all(c, np, 1, rec=0)
    for r in range(np):
        c.op(r, 'put', f=0, form='vara', v=0, s=[2 * r], c=[1], mem='int', vals=[70 + r], nb='i', req=0)
        c.op(r, 'put', f=0, form='vara', v=1, s=[1, 2 * r], c=[1, 2], mem='int', vals=[80 + r, 81 + r], nb='i', req=1)
        c.op(r, 'get', f=0, form='vara', v=0, s=[0], c=[2], mem='int', nb='i', req=2)
        c.op(r, 'wait', f=0, ids=['q0', 'q1', 'q2'], all=1)
    c.op('*', 'begin_indep', f=0)
    for r in range(np):
        c.op(r, 'put', f=0, form='vara', v=1, s=[2, 2 * r], c=[1, 1], mem='int', vals=[90 + r], nb='i', req=3)
        c.op(r, 'get', f=0, form='vara', v=1, s=[0, 0], c=[1, 2], mem='int', nb='i', req=4)
        c.op(r, 'wait', f=0, ids=['q3', 'q4'], all=0)
    c.op('*', 'end_indep', f=0)
    c.op('*', 'close', f=0)

def P_datamode_header(c, np):
    base(c, np); c.op('*', 'enddef', f=0)
    put_all(c, np, 1, rec=0)
    c.op('*', 'rename_var', f=0, v=0, name='f')
    c.op('*', 'put_att', f=0, v=-1, name='g', xtype='int', n=2, vals=[8, 9])
    c.op('*', 'rename_dim', f=0, d=1, name='y')
    c.op('*', 'begin_indep', f=0)
    c.op(0, 'put', f=0, form='vara', v=1, s=[3, 0], c=[1, 1], coll=0, mem='int', vals=[5])
    c.op('*', 'sync_numrecs', f=0)
    c.op('*', 'end_indep', f=0)
    c.op('*', 'sync', f=0)
    c.op('*', 'close', f=0)

def P_open_read(c, np):
    base(c, np); c.op('*', 'enddef', f=0)
    put_all(c, np, 0); put_all(c, np, 1, rec=0)
    c.op('*', 'close', f=0)
    c.op('*', 'open', f=0, path='a.nc', write=0)
    for r in range(np): c.op(r, 'get', f=0, form='var', v=0, coll=1, mem='int')
    c.op('*', 'close', f=0)
    c.op('*', 'open', f=0, path='a.nc', write=1, hints='romio_no_indep_rw=true')
    c.op('*', 'close', f=0)

def P_varn_vard(c, np):
    base(c, np); c.op('*', 'enddef', f=0)
    for r in range(np):
        c.op(r, 'put', f=0, form='varn', v=1, n=2, nd=2, s0=[0, 2 * r], c0=[1, 1], s1=[1, 2 * r], c1=[1, 2], coll=1, mem='int', vals=[1, 2, 3])
    for r in range(np):
        c.op(r, 'put', f=0, form='vard', v=0, s=[2 * r], c=[2], coll=1, mem='int', api='flex', vals=[4, 5])
    for r in range(np):
        c.op(r, 'get', f=0, form='vard', v=0, s=[2 * r], c=[2], coll=1, mem='int', api='flex')
    # vard writes to the record variable that create a new record each: the vard path has its own record-count update (added for C11-f)
    for r in range(np):
        c.op(r, 'put', f=0, form='vard', v=1, s=[2, 2 * r], c=[1, 2], coll=1, mem='int', api='flex', vals=[6, 7])
    c.op('*', 'begin_indep', f=0)
    for r in range(np):
        c.op(r, 'put', f=0, form='vard', v=1, s=[3 + r, 2 * r], c=[1, 2], coll=0, mem='int', api='flex', vals=[8, 9])
    c.op('*', 'end_indep', f=0)
    c.op('*', 'close', f=0)


def P_read_paths(c, np):
    """every read path once: several nonblocking reads aggregated into one transfer (separate user buffers), non-contiguous
    buffer types with and without byte swapping, strided / mapped / list-of-subarrays forms, collective and independent"""
    c.op('*', 'create', f=0, path='a.nc', fmt=1)
    c.op('*', 'def_dim', name='t', unlim=1); c.op('*', 'def_dim', name='x', len=np * 4)
    c.op('*', 'def_var', name='fx', xtype='int', dims=[1]); c.op('*', 'def_var', name='bv', xtype='byte', dims=[1]); c.op('*', 'def_var', name='rv', xtype='int', dims=[0, 1])
    c.op('*', 'enddef', f=0)
    for r in range(np):
        c.op(r, 'put', f=0, form='vara', v=0, s=[4 * r], c=[4], coll=1, mem='int', vals=[10 + r, 11 + r, 12 + r, 13 + r])
        c.op(r, 'put', f=0, form='vara', v=1, s=[4 * r], c=[4], coll=1, mem='schar', vals=[1 + r, 2 + r, 3 + r, 4 + r])
        c.op(r, 'put', f=0, form='vara', v=2, s=[0, 4 * r], c=[2, 4], coll=1, mem='int', vals=[20 + r + k for k in range(8)])
    for coll in (1, 0):
        if not coll: c.op('*', 'begin_indep', f=0)
        for r in range(np):
            # two nonblocking reads, user buffers apart in memory, completed together
            c.op(r, 'get', f=0, form='vara', v=0, s=[4 * r], c=[2], mem='int', nb='i', req=0)
            c.op(r, 'get', f=0, form='vara', v=0, s=[4 * r + 2], c=[2], mem='int', nb='i', req=1)
            c.op(r, 'wait', f=0, ids=['q0', 'q1'], all=coll)
            c.op(r, 'get', f=0, form='vara', v=1, s=[4 * r], c=[1], mem='schar', nb='i', req=2)
            c.op(r, 'get', f=0, form='vara', v=2, s=[1, 4 * r], c=[1, 2], mem='int', nb='i', req=3)
            c.op(r, 'get', f=0, form='varn', v=2, mem='int', n=2, nd=2, s0=[0, 4 * r], c0=[1, 1], s1=[1, 4 * r + 2], c1=[1, 2], nb='i', req=4)
            c.op(r, 'wait', f=0, ids=['q2', 'q3', 'q4'], all=coll)
            # blocking flexible reads into non-contiguous buffers: no swap (byte), swap (int), conversion
            c.op(r, 'get', f=0, form='vara', v=1, s=[4 * r], c=[4], coll=coll, mem='schar', api='flex', lay='vec:1:2')
            c.op(r, 'get', f=0, form='vara', v=0, s=[4 * r], c=[4], coll=coll, mem='int', api='flex', lay='vec:2:3')
            c.op(r, 'get', f=0, form='vara', v=0, s=[4 * r], c=[4], coll=coll, mem='double', api='flex', lay='idx')
            c.op(r, 'get', f=0, form='vars', v=0, s=[4 * r], c=[2], st=[2], coll=coll, mem='int')
            c.op(r, 'get', f=0, form='varm', v=2, s=[0, 4 * r], c=[2, 2], st=[1, 1], imap=[1, 2], coll=coll, mem='int')
            c.op(r, 'get', f=0, form='varn', v=0, mem='int', n=2, nd=1, s0=[4 * r], c0=[1], s1=[4 * r + 2], c1=[2], coll=coll)
        if not coll: c.op('*', 'end_indep', f=0)
    c.op('*', 'close', f=0)


def P_write_paths(c, np):
    """every write path once: aggregated nonblocking writes from separate buffers, buffered writes, non-contiguous buffer types
    with and without byte swapping / conversion, strided / mapped / list forms, in-place swap on and off, collective and independent"""
    for hint in ('nc_in_place_swap=enable', 'nc_in_place_swap=disable'):
        c.op('*', 'create', f=0, path='a.nc', fmt=1, hints=hint)
        c.op('*', 'def_dim', name='t', unlim=1); c.op('*', 'def_dim', name='x', len=np * 4)
        c.op('*', 'def_var', name='fx', xtype='int', dims=[1]); c.op('*', 'def_var', name='bv', xtype='byte', dims=[1]); c.op('*', 'def_var', name='rv', xtype='int', dims=[0, 1])
        c.op('*', 'enddef', f=0)
        c.op('*', 'buffer_attach', f=0, size=512)
        for coll in (1, 0):
            if not coll: c.op('*', 'begin_indep', f=0)
            for r in range(np):
                c.op(r, 'put', f=0, form='vara', v=0, s=[4 * r], c=[2], mem='int', vals=[1, 2], nb='i', req=0)
                c.op(r, 'put', f=0, form='vara', v=0, s=[4 * r + 2], c=[2], mem='int', vals=[3, 4], nb='i', req=1)
                c.op(r, 'wait', f=0, ids=['q0', 'q1'], all=coll)
                c.op(r, 'put', f=0, form='vara', v=2, s=[coll, 4 * r], c=[1, 2], mem='int', vals=[5, 6], nb='b', req=2)
                c.op(r, 'put', f=0, form='varn', v=2, mem='int', n=2, nd=2, s0=[2 + coll, 4 * r], c0=[1, 1], s1=[2 + coll, 4 * r + 2], c1=[1, 2], vals=[7, 8, 9], nb='i', req=3)
                c.op(r, 'wait', f=0, ids=['q2', 'q3'], all=coll)
                c.op(r, 'put', f=0, form='vara', v=1, s=[4 * r], c=[4], coll=coll, mem='schar', api='flex', lay='vec:1:2', vals=[1, 2, 3, 4])
                c.op(r, 'put', f=0, form='vara', v=0, s=[4 * r], c=[4], coll=coll, mem='int', api='flex', lay='vec:2:3', vals=[1, 2, 3, 4])
                c.op(r, 'put', f=0, form='vara', v=0, s=[4 * r], c=[4], coll=coll, mem='double', api='flex', lay='idx', vals=[1, 2, 3, 4])
                c.op(r, 'put', f=0, form='vars', v=0, s=[4 * r], c=[2], st=[2], coll=coll, mem='int', vals=[1, 2])
                c.op(r, 'put', f=0, form='varm', v=2, s=[0, 4 * r], c=[2, 2], st=[1, 1], imap=[1, 2], coll=coll, mem='int', vals=[1, 2, 3, 4])
                c.op(r, 'put', f=0, form='varn', v=0, mem='int', n=2, nd=1, s0=[4 * r], c0=[1], s1=[4 * r + 2], c1=[2], coll=coll, vals=[1, 2, 3])
            if not coll: c.op('*', 'end_indep', f=0)
        c.op('*', 'buffer_detach', f=0)
        c.op('*', 'close', f=0)


def P_redef_from_indep(c, np):
    """define mode entered directly from independent data mode: the record count raised independently is written on the way"""
    base(c, np); c.op('*', 'enddef', f=0)
    put_all(c, np, 1, rec=0)
    c.op('*', 'begin_indep', f=0)
    c.op(0, 'put', f=0, form='vara', v=1, s=[2, 0], c=[1, 1], coll=0, mem='int', vals=[5])
    if np > 1: c.op(np - 1, 'put', f=0, form='vara', v=1, s=[3, 1], c=[1, 1], coll=0, mem='int', vals=[6])
    c.op('*', 'redef', f=0)
    c.op('*', 'put_att', f=0, v=-1, name='h', xtype='int', n=1, vals=[3])
    c.op('*', 'enddef', f=0)
    c.op('*', 'begin_indep', f=0)
    c.op(0, 'put', f=0, form='vara', v=1, s=[4, 0], c=[1, 1], coll=0, mem='int', vals=[7])
    c.op('*', 'close', f=0)


def P_safe_datamode_header(c, np): P_datamode_header(c, np)      # the P_safe_* programs run with PNETCDF_SAFE_MODE=1 (extra status exchanges)
def P_safe_redef_from_indep(c, np): P_redef_from_indep(c, np)
def P_safe_redef_move(c, np): P_redef_move(c, np)
def P_safe_nonblocking(c, np): P_nonblocking(c, np)


PROGRAMS = [P_read_paths, P_write_paths, P_redef_from_indep, P_safe_datamode_header, P_safe_redef_from_indep, P_safe_redef_move, P_safe_nonblocking, P_enddef, P_enddef_coll_hdr, P_numrecs, P_fill, P_redef_move, P_redef_move_multi, P_redef_move_coll, P_blocking, P_nonblocking, P_datamode_header, P_open_read, P_varn_vard]


def mkcase(prog, np, fault=None, tag='', ledger=False, injview=False):
    c = Case('%s-np%d%s' % (prog.__name__, np, tag), np, opts=dict(fault='%d:%d:%d' % fault, sched='off') if fault else dict(sched='off'))
    if injview: c.opts['injview'] = '1'       # the injectable calls are the MPI_File_set_view calls (C17's ledger programs)
    c.op('*', 'env', PNETCDF_SAFE_MODE='1' if prog.__name__.startswith('P_safe') else '0')     # the environment outlives a case inside one job: always set it
    prog(c, np)
    if ledger: c.op('*', 'ledger')        # C17 re-runs these programs, with faults, for what the library still holds at the end
    return c


def inj_map(r, np):
    """rank -> list of (first, last, line) of injectable calls per op"""
    out = {}
    for k in range(np):
        lst = []
        for ln, o in sorted(r.ranks.get(k, {}).items()):
            if 'inj' in o:
                a, b = o['inj'].split('-'); lst.append((int(a), int(b), ln, o.get('op')))
        out[k] = lst
    return out


def main(tier=None):
    ck = Check('C11', 'fault_enumeration', tier)
    b = build.build('plain')
    thorough = ck.tier == 'thorough'
    classes = list(CLASSES) if thorough else QUICK_CLASSES
    nps = (1, 2, 3) if thorough else (1, 2)
    # 1. fault-free runs: where are the injectable calls?
    ff = [(p, np, mkcase(p, np)) for p in PROGRAMS for np in nps]
    res = runner.run_cases(b['vx'], [x[2] for x in ff], batch=8)
    faulted = []
    sites = set()
    for (p, np, c), r in zip(ff, res):
        if r.status != 'ok':
            ck.violation((r.status, p.__name__, 'fault-free ' + first_frame(r.detail)), c.text(), 'fault-free run of %s np=%d: %s' % (p.__name__, np, r.detail[:500])); continue
        bad = [(k, ln, o.get('op'), o.rc) for k in r.ranks for ln, o in r.ranks[k].items() if o.rc != 0]
        if bad:
            ck.violation(('rc', p.__name__, 'fault-free'), c.text(), 'fault-free run of %s np=%d has failing ops %s' % (p.__name__, np, bad[:4])); continue
        im = inj_map(r, np)
        for k in range(np):
            total = int(r.end[k].get('inj', 0))
            for pos in range(1, total + 1):
                line = next((ln for a, bb, ln, op in im[k] if a <= pos <= bb), None)
                opn = next((op for a, bb, ln, op in im[k] if a <= pos <= bb), 'cleanup')
                if line is None: continue       # issued by the harness' end-of-case cleanup, not by the program
                for cl in classes:
                    faulted.append((p, np, k, pos, cl, line, opn, mkcase(p, np, (k, pos, CLASSES[cl]), '-r%d-p%d-%s' % (k, pos, cl))))
    results = runner.run_cases(b['vx'], [f[7] for f in faulted], batch=40)
    post_div = 0; fired = 0
    for (p, np, k, pos, cl, line, opn, c), r in zip(faulted, results):
        ck.cov['evaluations'] += 1
        where = None
        if r.status == 'ok':
            where = r.end.get(k, {}).get('where')
            if r.end.get(k, {}).get('fault_hit') != '1':
                ck.violation(('fault_not_fired', p.__name__, 'harness'), c.text(), '%s np=%d rank %d pos %d: injection point not reached (nondeterministic program?)' % (p.__name__, np, k, pos)); continue
            fired += 1
            o = r.r(k, line)
            sites.add((p.__name__, opn, where))
            ck.outcomes.add((opn, where, o.rc if o is not None else None))
            if o is None or o.rc == 0:
                cause = where if where.endswith(':zero-length') else '%s class %s' % (where, 'MPI_ERR_IO' if cl == 'MPI_ERR_IO' else 'other than MPI_ERR_IO')
                ck.violation(('silent_success', opn, cause), c.text(),
                             '%s np=%d: %s on rank %d failed with %s inside %s (line %d) but the call returned NC_NOERR' % (p.__name__, np, where, k, cl, opn, line))
            continue
        # the job died: deadlock verdict, crash or timeout
        ops_blocked = [int(x) for x in re.findall(r'PEND_COLL\([^)]*op=(\d+)', r.detail)] + [int(x) for x in re.findall(r'BLOCKED_P2P\([^)]*op=(\d+)', r.detail)]
        if r.status == 'verdict' and line not in ops_blocked:
            post_div += 1      # ranks diverged in a *later* call; the failing call itself returned everywhere
            continue
        ck.outcomes.add((opn, r.status))
        ck.violation((r.status, opn, first_frame(r.detail)), c.text(), '%s np=%d: fault %s at injectable call %d of rank %d (inside %s, line %d): %s' % (p.__name__, np, cl, pos, k, opn, line, r.detail[:700]))
    ck.cov['distinct_nontrivial'] = len(sites)
    ck.cov['rule'] = ('for each of %d programs x np in %s: the fault-free run lists every injectable MPI-IO call (read/write[_at][_all], File_sync, File_set_size, File_close) per rank; then one run per '
                      '(rank, position, error class in %s). The API call that issued the failed MPI-IO call must return != NC_NOERR on that rank and no rank may stay blocked inside that call. '
                      'distinct_nontrivial = distinct (program, API call, MPI function) injection sites' % (len(PROGRAMS), list(nps), classes))
    ck.cov['faults_fired'] = fired; ck.cov['post_fault_divergence_not_counted'] = post_div
    ck.cov['samples'] = [faulted[0][7].text()[:1200], faulted[len(faulted) // 2][7].text()[:1200]] if faulted else []
    ck.assumptions += ['one fault per run', 'a collective MPI-IO call that fails on one rank is still entered by that rank with a zero count, so MPI itself does not hang',
                       'divergence of the ranks in calls issued after the failed one is not judged']
    runner.cleanup()
    return ck.finish(min_eval=100, min_outcomes=5)


if __name__ == '__main__':
    sys.exit(main(sys.argv[1] if len(sys.argv) > 1 else None))
