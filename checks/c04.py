"""C04 Any specification-valid classic file is read back exactly — encoder-generated layouts x header chunk boundaries x np."""
import itertools, sys, os, copy
sys.path.insert(0, os.path.dirname(os.path.dirname(os.path.abspath(__file__))))
from engine import build, runner, cdf, fileck
from engine.common import Check
from engine.runner import Case
from engine.bfs import cmp_sweep
from engine.script import first_frame
from engine.model.filemodel import FileModel, COLL
from engine.model import data as D


def model_from_cdf(f, data):
    m = FileModel(f.version); m.mode = COLL; m.rdonly = True
    m.dims = [[d.name, (None if d.size == 0 else d.size)] for d in f.dims]
    def conv(a):
        v = a.values if isinstance(a.values, (bytes, bytearray)) else list(a.values)
        return [a.name, a.xtype, bytes(v) if a.xtype == D.NC_CHAR else v, 0]
    m.gatts = [conv(a) for a in f.gatts]
    m.vars = [dict(name=v.name, xtype=v.xtype, dimids=list(v.dimids), atts=[conv(a) for a in v.atts], nofill=None) for v in f.vars]
    m.numrecs = f.numrecs
    return m


def mkfile_schema(version, kind, filler=None):
    """a few schemas; `filler` = length of a leading global text attribute that shifts every later token"""
    T = cdf
    dims = [T.Dim('t', 0), T.Dim('x', 2), T.Dim('yy', 3)]
    gatts = []
    if filler is not None: gatts.append(T.Att('fill', D.NC_CHAR, b'F' * filler))
    if kind == 'minimal':
        return T.File(version, [], gatts, [], 0)
    gatts += [T.Att('title', D.NC_CHAR, b'hello'), T.Att('zero', D.NC_INT, []), T.Att('dd', D.NC_DOUBLE, [1.5, -2.25])]
    if version == 5: gatts.append(T.Att('big', D.NC_UINT64, [2 ** 63 + 1]))
    if kind == 'fixed':
        vars_ = [T.Var('a', D.NC_SHORT, [1], [T.Att('units', D.NC_CHAR, b'm')]), T.Var('bcd', D.NC_INT, [0, 1]), T.Var('s', D.NC_DOUBLE, []), T.Var('c', D.NC_CHAR, [1], [T.Att('e', D.NC_BYTE, [])])]
        return T.File(version, dims[1:], gatts, vars_, 0)
    if kind == 'record1':
        vars_ = [T.Var('f', D.NC_BYTE, [2]), T.Var('r', D.NC_SHORT, [0, 2], [T.Att('long_name', D.NC_CHAR, b'rec')])]
        return T.File(version, dims, gatts, vars_, 3)
    if kind == 'record2':
        vars_ = [T.Var('r1', D.NC_BYTE, [0, 1]), T.Var('f', D.NC_INT, [1]), T.Var('r2', D.NC_FLOAT, [0]), T.Var('g', D.NC_SHORT if version < 5 else D.NC_USHORT, [2])]
        return T.File(version, dims, gatts, vars_, 2)
    if kind == 'manydims':
        # valid but unusual: variables with 17, 30, 20 and 18 dimensions in that order (more than the 16 many code paths keep on the stack)
        dims = [T.Dim('t', 0)] + [T.Dim('d%d' % i, 2 if i == 3 else 1) for i in range(1, 32)]
        vars_ = [T.Var('a2', D.NC_INT, [3, 4]), T.Var('a17', D.NC_SHORT, list(range(1, 18))), T.Var('a30', D.NC_INT, list(range(1, 31))),
                 T.Var('a20', D.NC_BYTE, list(range(2, 22))), T.Var('r18', D.NC_SHORT, [0] + list(range(1, 18)))]
        return T.File(version, dims, gatts, vars_, 2)
    if kind.startswith('onerec-'):
        # exactly one record variable (records are then packed without padding), of a given type, 3 elements per record
        xt = int(kind.split('-')[1])
        vars_ = [T.Var('f', D.NC_BYTE, [2]), T.Var('r', xt, [0, 2], [T.Att('long_name', D.NC_CHAR, b'rec')])]
        return T.File(version, dims, gatts, vars_, 3)
    if kind.startswith('bigrec-'):
        # a record variable too large for its vsize field (4 GiB per record: saturated vsize in CDF-1/2), legal as the LAST record variable, with
        # fixed-size variables defined before / after it and a small record variable in front; no records, so the file is a few hundred bytes
        dims = [T.Dim('t', 0), T.Dim('huge', 2 ** 30), T.Dim('x', 2)]
        big = T.Var('big', D.NC_INT, [0, 1], [T.Att('units', D.NC_CHAR, b'K')]); fx = T.Var('tail', D.NC_SHORT, [2]); r0 = T.Var('r0', D.NC_BYTE, [0, 2]); f0 = T.Var('head', D.NC_INT, [2])
        vars_ = {'bigrec-after': [big, fx], 'bigrec-before': [f0, big], 'bigrec-between': [f0, r0, big, fx], 'bigrec-recfirst': [r0, big, fx, f0]}[kind]
        return T.File(version, dims, gatts, vars_, 0)
    raise ValueError(kind)


def gen_data(f):
    cdf.compute_shapes(f)
    data = {}
    for i, v in enumerate(f.vars):
        n = v.nelems_per_rec_or_total * (f.numrecs if v.is_record else 1)
        if v.xtype in (D.NC_FLOAT, D.NC_DOUBLE): data[i] = [float((i * 11 + k) % 50) + 0.5 for k in range(n)]
        elif v.xtype == D.NC_CHAR: data[i] = [65 + (i + k) % 26 for k in range(n)]
        else: data[i] = [(i * 13 + k * 3) % 100 + 1 for k in range(n)]
    return data


LAYOUTS = [dict(), dict(first_gap=4), dict(first_gap=40, var_gaps=[0, 4, 12, 0]), dict(rec_gap=12), dict(vsize_mode='zero'), dict(vsize_mode='stale'), dict(vsize_mode='max'),
           dict(first_gap=8, var_gaps=[4, 0, 4, 8], rec_gap=4, vsize_mode='stale')]


def variants(version, kind, filler=None, quick=False):
    """yield (label, bytes, File, data)"""
    for li, lay in enumerate(LAYOUTS):
        if quick and li not in (0, 2, 5, 7): continue
        for absent_mode in (0, 1):
            for free in (0x00, 0xEE):
                if quick and (li + absent_mode + (free > 0)) % 2: continue
                f = mkfile_schema(version, kind, filler)
                if absent_mode:
                    # encode empty lists as tag + 0 instead of ABSENT
                    if not f.dims: f.absent['dims'] = False
                    if not f.gatts: f.absent['gatts'] = False
                    if not f.vars: f.absent['vars'] = False
                    for i, v in enumerate(f.vars):
                        if not v.atts: f.absent[('vatts', i)] = False
                lay2 = dict(lay)
                if 'var_gaps' in lay2: lay2['var_gaps'] = lay2['var_gaps'][:len(f.vars)]
                # a gap in front of a later record variable would break the record layout: only the first record var may be preceded by one (rec_gap)
                if 'var_gaps' in lay2:
                    order = cdf.file_order(f); g = list(lay2['var_gaps']) + [0] * (len(order) - len(lay2['var_gaps']))
                    seen_rec = False
                    for k, v in enumerate(order):
                        if v.is_record:
                            if seen_rec: g[k] = 0
                            seen_rec = True
                    lay2['var_gaps'] = g
                cdf.layout(f, **lay2)
                data = gen_data(f)
                raw = cdf.encode(f, data, free_fill=free)
                yield ('L%d-ab%d-ff%02x' % (li, absent_mode, free), raw, f, data)


def build_case(name, raw, f, data, np, chunk=None, hints=None, safe=0):
    c = Case(name, np)
    env = {'PNETCDF_SAFE_MODE': str(safe)}
    if chunk: env['PNETCDF_VERIF_HDR_CHUNK'] = str(chunk)
    c.op('*', 'env', **env)
    c.op(0, 'mkfile', path='in.nc', hex=raw.hex())
    c.op('*', 'barrier')
    ctx = dict(open=c.op('*', 'open', f=0, path='in.nc', write=0, hints=hints))
    ctx['sweep'] = c.op('*', 'sweep', f=0)
    ctx['gets'] = []
    for i, v in enumerate(f.vars):
        mem = 'text' if v.xtype == D.NC_CHAR else D.XT_MEM[v.xtype]
        ctx['gets'].append((i, c.op('*', 'get', f=0, form='var', v=i, coll=1, mem=mem), None))
        if v.is_record and f.numrecs > 0:
            inner = [f.dims[d].size for d in v.dimids[1:]]
            per = v.nelems_per_rec_or_total
            for rec in range(f.numrecs):
                ctx['gets'].append((i, c.op('*', 'get', f=0, form='vara', v=i, s=[rec] + [0] * len(inner), c=[1] + inner, coll=1, mem=mem), (rec * per, (rec + 1) * per)))
            last = f.numrecs - 1
            ctx['gets'].append((i, c.op('*', 'get', f=0, form='var1', v=i, s=[last] + [x - 1 for x in inner], coll=1, mem=mem), ((last + 1) * per - 1, (last + 1) * per)))
    ctx['close'] = c.op('*', 'close', f=0)
    c.op('*', 'ledger')
    return c, ctx


def judge(ck, name, c, ctx, r, f, data):
    text = c.text()
    if r.status != 'ok':
        ck.violation((r.status, 'open', first_frame(r.detail)), text, name + ': ' + r.detail[:700]); return
    m = model_from_cdf(f, data)
    cdf.compute_shapes(f)
    if f.hdr_len is None: f.hdr_len = len(cdf.encode_header(f))
    f.begin_order_ok = True
    for k in r.ranks:
        o = r.r(k, ctx['open'])
        if o.rc != 0:
            ck.violation(('rc', 'open', 'valid file rejected'), text, '%s: rank %d ncmpi_open returned %d on a specification-valid file' % (name, k, o.rc)); return
        d = cmp_sweep(m, r.r(k, ctx['sweep']).json())
        if d:
            ck.violation(('metadata', 'inq', d.split(':')[0]), text, '%s: rank %d: %s' % (name, k, d)); return
        # the library's own layout reports (header size and extent, variable offsets, record size) agree with the file
        if f.begin_order_ok:
            lo, _ = fileck.check_layout(f, r.r(k, ctx['sweep']).json())
            lo = [x for x in lo if x[0].startswith('inq_')]
            if lo:
                ck.violation(('layout_report', 'inq', lo[0][0]), text, '%s: rank %d: %s' % (name, k, lo[0][1])); return
        for i, ln, rng in ctx['gets']:
            g = r.r(k, ln)
            what = 'get_var' if rng is None else 'get_vara/var1 of one record'
            want = data[i] if rng is None else data[i][rng[0]:rng[1]]
            if g.rc != 0:
                ck.violation(('rc', what, 'valid file'), text, '%s: rank %d %s(%d) returned %d' % (name, k, what, i, g.rc)); return
            if D.cmp_lists(want, g.vals()) >= 0 or len(want) != len(g.vals()):
                ck.violation(('value', what, 'valid file'), text, '%s: rank %d var %d elements %s read %s, encoded %s' % (name, k, i, rng, g.vals()[:20], want[:20])); return
        if r.rc(k, ctx['close']) != 0:
            ck.violation(('rc', 'close', 'valid file'), text, '%s: close returned %d' % (name, r.rc(k, ctx['close']))); return
    ck.outcomes.add(r.r(0, ctx['sweep']).get('json'))


def main(tier=None):
    ck = Check('C04', 'exploration', tier)
    b = build.build('plain')
    thorough = ck.tier == 'thorough'
    jobs = []
    kinds = ['minimal', 'fixed', 'record1', 'record2']
    # (1) layout freedoms
    for ver in (1, 2, 5):
        for kind in kinds:
            for label, raw, f, data in variants(ver, kind, None, quick=not thorough):
                for np, chunk, hints, safe in ([(1, None, None, 0), (2, 40, 'romio_no_indep_rw=true', 1)] if not thorough else
                                               [(1, None, None, 0), (1, 36, None, 0), (2, 44, None, 1), (3, 64, 'romio_no_indep_rw=true', 0), (2, None, 'romio_no_indep_rw=true', 1)]):
                    name = 'LAY-v%d-%s-%s-np%d-c%s-%s-s%d' % (ver, kind, label, np, chunk, 'hc' if hints else 'hi', safe)
                    c, ctx = build_case(name, raw, f, data, np, chunk, hints, safe)
                    jobs.append((name, c, ctx, f, data))
    # (1b) exactly one record variable of every external type (packed records), read record by record
    for ver in (1, 2, 5):
        for xt in [1, 2, 3, 4, 5, 6] + ([7, 8, 9, 10, 11] if ver == 5 else []):
            f = mkfile_schema(ver, 'onerec-%d' % xt); cdf.layout(f); data = gen_data(f); raw = cdf.encode(f, data)
            for np, chunk in ((1, None), (2, 44)):
                name = 'ONE-v%d-x%d-np%d' % (ver, xt, np)
                c, ctx = build_case(name, raw, f, data, np, chunk)
                jobs.append((name, c, ctx, f, data))
    # (1c) one open hint at a time (the result may not depend on any of them): each name-table size alone, smaller and larger than the others'
    # default, all together, buffer size, byte swapping, aggregation, alignment hints (meaningless for reading), collective header read
    OPEN_HINTS = ['nc_hash_size_var=16', 'nc_hash_size_var=1', 'nc_hash_size_var=2048', 'nc_hash_size_dim=1', 'nc_hash_size_dim=16', 'nc_hash_size_dim=1024',
                  'nc_hash_size_gattr=1', 'nc_hash_size_vattr=1', 'nc_hash_size_gattr=64;nc_hash_size_vattr=2', 'nc_hash_size_dim=2;nc_hash_size_var=3;nc_hash_size_gattr=1;nc_hash_size_vattr=1',
                  'nc_header_read_chunk_size=64', 'nc_ibuf_size=1', 'nc_in_place_swap=enable', 'nc_num_aggrs_per_node=1', 'nc_header_align_size=1000;nc_var_align_size=512;nc_record_align_size=64',
                  'romio_no_indep_rw=true', 'pnetcdf_subfiling=enable;nc_num_subfiles=2']
    for ver in (1, 2, 5):
        for kind in (['fixed', 'record2'] if not thorough else kinds):
            label, raw, f, data = next(iter(variants(ver, kind, None, quick=True)))
            for hi, h in enumerate(OPEN_HINTS):
                for np in ((1, 2) if thorough else ((1,) if (hi + ver) % 2 else (2,))):
                    name = 'HINT-v%d-%s-h%d-np%d' % (ver, kind, hi, np)
                    c, ctx = build_case(name, raw, f, data, np, None, h, 0)
                    jobs.append((name, c, ctx, f, data))
    # (1d) the one record variable that may exceed the vsize field (saturated in CDF-1/2), with fixed-size variables defined before and after it
    for ver in (1, 2, 5):
        for kind in ('bigrec-after', 'bigrec-before', 'bigrec-between', 'bigrec-recfirst'):
            f = mkfile_schema(ver, kind); cdf.layout(f); data = gen_data(f); raw = cdf.encode(f, data)
            for np, chunk in ((1, None), (2, 48)):
                name = 'BIG-v%d-%s-np%d' % (ver, kind, np)
                c, ctx = build_case(name, raw, f, data, np, chunk)
                jobs.append((name, c, ctx, f, data))
    for ver in (1, 2, 5):
        f = mkfile_schema(ver, 'manydims'); cdf.layout(f); data = gen_data(f); raw = cdf.encode(f, data)
        for np, chunk in ((1, None), (2, 64)):
            name = 'DIMS-v%d-np%d' % (ver, np)
            c, ctx = build_case(name, raw, f, data, np, chunk)
            jobs.append((name, c, ctx, f, data))
    # (2) every header token at every offset relative to a chunk end
    chunks = [36, 40, 44, 48, 52, 64, 100] if thorough else [36, 44, 64]
    for ver in (1, 2, 5):
        for kind in (['fixed', 'record2'] if not thorough else ['fixed', 'record1', 'record2']):
            for chunk in chunks:
                for filler in range(0, chunk + 4, 4):
                    f = mkfile_schema(ver, kind, filler); cdf.layout(f); data = gen_data(f); raw = cdf.encode(f, data)
                    for np in ((1,) if not thorough else (1, 2)):
                        name = 'CHK-v%d-%s-c%d-f%d-np%d' % (ver, kind, chunk, filler, np)
                        c, ctx = build_case(name, raw, f, data, np, chunk)
                        jobs.append((name, c, ctx, f, data))
    # (3) a header larger than the real 256 KiB chunk, tokens straddling the one real boundary
    big_fillers = range(262144 - 200, 262144 + 40, 4) if thorough else range(262144 - 120, 262144 + 8, 8)
    for ver in (1, 5):
        for filler in big_fillers:
            f = mkfile_schema(ver, 'record2', filler); cdf.layout(f); data = gen_data(f); raw = cdf.encode(f, data)
            name = 'BIG-v%d-f%d' % (ver, filler)
            c, ctx = build_case(name, raw, f, data, 1, None)
            jobs.append((name, c, ctx, f, data))
    # (4) STREAMING numrecs and all-ones vsize with implied record count (thorough, reported separately)
    results = runner.run_cases(b['vx'], [j[1] for j in jobs], batch=40)
    for (name, c, ctx, f, data), r in zip(jobs, results):
        ck.cov['evaluations'] += 1
        judge(ck, name, c, ctx, r, f, data)
    ck.cov['distinct_nontrivial'] = len(set(j[1].ops[1] for j in jobs))
    ck.cov['rule'] = ('files produced by the independent encoder: 4 schemas x 3 formats x layout freedoms {gaps before/between variables, gap before the record section, vsize correct/0/stale/all-ones, '
                      'ABSENT vs tag+0 empty lists, non-zero bytes in free space} x {np, header chunk size via hook, collective header read, safe mode}; one open hint at a time (17 hint strings incl. each name-table size alone); files whose last record variable needs 4 GiB per record (saturated vsize in CDF-1/2) with fixed-size variables defined before / after it and no records; a file with exactly one record variable for every external type of each format; a file whose variables have 17, 30, 20 and 18 dimensions; every variable is read whole, record by record and at its last element; every header token placed at every 4-byte offset '
                      'relative to a chunk end for chunk sizes %s (filler attribute sweep) and around the real 256 KiB boundary; distinct_nontrivial = distinct input files' % chunks)
    ck.sample(jobs[0][1].text()[:1200]); ck.sample(jobs[len(jobs) // 2][1].text()[:1200])
    ck.assumptions += ['begins increasing in definition order within each section (as the property states)', 'hook PNETCDF_VERIF_HDR_CHUNK stands in for the hint nc_header_read_chunk_size, which the library parses but never stores']
    runner.cleanup()
    return ck.finish(min_eval=100, min_outcomes=10)


if __name__ == '__main__':
    sys.exit(main(sys.argv[1] if len(sys.argv) > 1 else None))
