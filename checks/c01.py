"""C01 Blocking put/get round-trip fidelity — exhaustive products T1..T5 (DESIGN.md 4, C01)."""
import itertools, sys, os
sys.path.insert(0, os.path.dirname(os.path.dirname(os.path.abspath(__file__))))
from engine import build, runner
from engine.common import Check
from engine.script import Script
from engine.model import data as D

NREC = 3
DIMS = [('t', None), ('a', 2), ('b', 3), ('c', 2)]
# shapes as dimid tuples: (), (b), (a,b), (t), (t,a), (t,a,c), (a,c,a)
SHAPES = [(), (2,), (1, 2), (0,), (0, 1), (0, 1, 3), (1, 3, 1)]
SHAPES_QUICK_T1 = [(2,), (1, 2), (0, 1), (0, 1, 3)]


def lens(dimids):
    return [NREC if DIMS[d][1] is None else DIMS[d][1] for d in dimids]


def mkvars(xtype=D.NC_INT, shapes=SHAPES):
    return [('v%d' % i, xtype, list(s)) for i, s in enumerate(shapes)]


def dim_options(L):
    """every legal (start,count,stride) for one dimension of length L, strides from {1,2,L}, canonical stride for count<=1"""
    out = set()
    for start in range(L):
        out.add((start, 0, 1)); out.add((start, 1, 1))
        for stride in sorted({1, 2, L}):
            c = 2
            while start + (c - 1) * stride < L:
                out.add((start, c, stride)); c += 1
    return sorted(out)


def all_tuples(shape_lens):
    opts = [dim_options(L) for L in shape_lens]
    for combo in itertools.product(*opts):
        yield [c[0] for c in combo], [c[1] for c in combo], [c[2] for c in combo]


def background(s, tag0=50):
    """write every element of every variable (put_var, whole), so 'elements not addressed keep their value' is checkable"""
    m = s.model
    for v, var in enumerate(m.vars):
        if var.isrec:
            shape = [NREC] + var.shape[1:]
            s.put('*', v, [0] * len(shape), shape, None, form='vara', coll=1, tag=tag0 + v)
        else:
            s.put('*', v, form='var', coll=1, tag=tag0 + v)


# ---------------------------------------------------------------- T1
def gen_T1(fmt, shapes, per_case=150, single=False):
    cases = []
    for si, sh in enumerate(shapes):
        L = lens(sh)
        tuples = list(all_tuples(L))
        for b in range(0, len(tuples), per_case):
            s = Script('T1%s-f%d-s%d-%d' % ('one' if single else '', fmt, si, b), 1, fmt, DIMS, [('v', D.NC_INT, list(sh)), ('w', D.NC_INT, [1, 2] if single else [0, 1])])
            background(s)
            for k, (st, ct, sd) in enumerate(tuples[b:b + per_case]):
                s.put('*', 0, st, ct, sd, form='vars', coll=1, tag=2 + k % 40)
                s.get_all('*', 0, coll=1)
            s.get_all('*', 1, coll=1, what='neighbour-untouched')
            s.finish()
            cases.append(s)
    return cases


# ---------------------------------------------------------------- T2 / T5
def regions_for(L):
    """representative regions: (start,count,stride) ; strided ones have stride != None"""
    nd = len(L)
    if nd == 0: return [([], [], None)]
    R = []
    R.append(([0] * nd, list(L), None))                                   # whole
    R.append(([x - 1 for x in L], [1] * nd, None))                        # last element
    R.append(([min(1, x - 1) for x in L], [max(1, x - 1) if x > 1 else 1 for x in L], None))   # block off the origin
    if any(x >= 3 for x in L) or nd >= 1:
        R.append(([0] * nd, [(x + 1) // 2 for x in L], [2] * nd))          # strided
    R.append(([0] * nd, [0] + list(L[1:]), None))                          # zero-length
    R.append(([L[0] - 1] + [0] * (nd - 1), [1] + list(L[1:]), None))       # last row / last record
    seen = []; out = []
    for r in R:
        key = (tuple(r[0]), tuple(r[1]), tuple(r[2] or ()))
        if key not in seen: seen.append(key); out.append(r)
    return out


LAYOUTS = [
    # (name, kw for put/get)
    ('typed', dict()),
    ('typed-conv', dict(mem='double')),
    ('flex-contig', dict(api='flex')),
    ('flex-conv', dict(api='flex', mem='short')),
    ('vec', dict(lay='vec:1:2')),
    ('vec2', dict(lay='vec:2:3')),
    ('idx', dict(lay='idx')),
    ('hvec', dict(lay='hvec:1:3')),
    ('rsz', dict(lay='rsz:1:2')),
    ('cont1', dict(lay='cont1')),
    ('cont2', dict(lay='cont2')),
    ('struct', dict(lay='struct')),
    ('dtnull', dict(lay='dtnull')),
]
LAYOUTS_QUICK = ['typed', 'typed-conv', 'flex-contig', 'vec2', 'idx', 'rsz', 'cont2', 'struct', 'dtnull']


def forms_for(L, st, ct, sd):
    """(form name, kwargs) applicable to this region"""
    nd = len(L); n = D.nelems(ct) if nd else 1
    F = []
    whole = nd == 0 or (sd is None and all(s == 0 for s in st) and list(ct) == list(L))
    if whole: F.append(('var', {}))
    if n == 1 and (nd == 0 or all(c == 1 for c in ct)): F.append(('var1', dict(start=st)))
    if sd is None or nd == 0: F.append(('vara', dict(start=st, count=ct)))
    F.append(('vars', dict(start=st, count=ct, stride=sd or ([1] * nd))))
    if nd >= 1:
        ident = [1] * nd
        for d in range(nd - 2, -1, -1): ident[d] = ident[d + 1] * max(ct[d + 1], 1)
        F.append(('varm', dict(start=st, count=ct, stride=sd or [1] * nd, imap=ident)))
        if nd >= 2 and n > 1:
            # transposed: first dim varies fastest
            tr = [1] * nd
            for d in range(1, nd): tr[d] = tr[d - 1] * max(ct[d - 1], 1)
            F.append(('varm-T', dict(start=st, count=ct, stride=sd or [1] * nd, imap=tr)))
        pad = [x * 2 for x in ident]
        if n > 1: F.append(('varm-pad', dict(start=st, count=ct, stride=sd or [1] * nd, imap=pad)))
    if sd is None and nd >= 1:
        # varn: split along the first dimension into single-row boxes (one of them with a NULL count when it is one element)
        boxes = []
        if ct[0] >= 2:
            h = ct[0] // 2
            boxes.append((list(st), [h] + list(ct[1:])))
            boxes.append(([st[0] + h] + list(st[1:]), [ct[0] - h] + list(ct[1:])))
        else:
            boxes.append((list(st), None if n == 1 and all(c == 1 for c in ct) else list(ct)))
        F.append(('varn', dict(boxes=boxes)))
        if n > 0: F.append(('vard', dict(start=st, count=ct)))
    if nd == 0:
        F.append(('vard', dict(start=[], count=[])))
    return F


def call(s, isput, ranks, v, fname, fkw, lkw, coll, tag):
    form = fname.split('-')[0]
    kw = dict(fkw); kw.update(lkw)
    if form in ('varm',) and ('lay' in lkw): return None        # imap x derived buftype: outside the bound
    if form == 'vard':
        kw.setdefault('api', 'flex')
        if lkw.get('lay') == 'dtnull': return None                # vard requires a real buffer type
    if isput: return s.put(ranks, v, form=form, coll=coll, tag=tag, **kw)
    return s.get(ranks, v, form=form, coll=coll, **kw)


def gen_T2(fmt, shapes, layouts, xtype=D.NC_INT, hints=None, single=False):
    cases = []
    for si, sh in enumerate(shapes):
        L = lens(sh)
        for coll in (1, 0):
            s = Script('T2%s-f%d-s%d-c%d%s' % ('one' if single else '', fmt, si, coll, '-' + hints.replace('=', '_') if hints else ''), 1, fmt, DIMS, [('v', xtype, list(sh)), ('w', xtype, [1, 2] if single else [0, 1]), ('z', D.NC_SHORT, [2])], hints=hints)
            background(s)
            if not coll: s.op('*', 'begin_indep')
            tag = 1
            for (st, ct, sd) in regions_for(L):
                for fname, fkw in forms_for(L, st, ct, sd):
                    for lname, lkw in LAYOUTS:
                        if lname not in layouts: continue
                        if lname == 'flex-conv' and xtype != D.NC_INT: continue
                        tag = tag % 90 + 1
                        if call(s, True, '*', 0, fname, fkw, lkw, coll, tag) is None: continue
                        s.get_all('*', 0, coll=coll)
                        call(s, False, '*', 0, fname, fkw, lkw, coll, tag)
            s.get_all('*', 1, coll=coll, what='neighbour-untouched')
            s.get_all('*', 2, coll=coll, what='neighbour-untouched')
            s.finish(in_indep=not coll)
            cases.append(s)
    return cases


def gen_T5(fmt, shapes):
    """every ordered pair (write form, read form) on the block and strided regions"""
    cases = []
    for si, sh in enumerate(shapes):
        L = lens(sh)
        if not L: continue
        regs = regions_for(L)
        s = Script('T5-f%d-s%d' % (fmt, si), 1, fmt, DIMS, [('v', D.NC_INT, list(sh)), ('w', D.NC_INT, [0, 1])])
        background(s)
        tag = 1
        for (st, ct, sd) in regs:
            if D.nelems(ct) == 0: continue
            fw = forms_for(L, st, ct, sd)
            for (wn, wkw) in fw:
                tag = tag % 90 + 1
                call(s, True, '*', 0, wn, wkw, {}, 1, tag)
                for (rn, rkw) in fw:
                    call(s, False, '*', 0, rn, rkw, {}, 1, tag)
        s.finish()
        cases.append(s)
    return cases


# ---------------------------------------------------------------- T3 decompositions
def splits(n, parts):
    """all ways to cut range(n) into `parts` consecutive (possibly empty) pieces"""
    for cuts in itertools.combinations_with_replacement(range(n + 1), parts - 1):
        b = (0,) + cuts + (n,)
        yield [(b[i], b[i + 1] - b[i]) for i in range(parts)]


def gen_T3(fmt, shapes, np, hints=None):
    cases = []
    for si, sh in enumerate(shapes):
        L = lens(sh)
        if not L: continue
        for coll in (1, 0):
            s = Script('T3-f%d-s%d-np%d-c%d%s' % (fmt, si, np, coll, '-' + hints.replace('=', '_') if hints else ''), np, fmt, DIMS, [('v', D.NC_INT, list(sh)), ('w', D.NC_INT, [0, 1])], hints=hints)
            background(s)
            if not coll: s.op('*', 'begin_indep')
            tag = 1
            for d in range(len(L)):
                for sp in splits(L[d], np):
                    tag = tag % 80 + 1
                    for perm in ([0, 1] if np == 2 else [0]):     # which rank gets which piece
                        for r in range(np):
                            off, cnt = sp[(r + perm) % np]
                            st = [0] * len(L); ct = list(L); st[d] = off if cnt > 0 else 0; ct[d] = cnt
                            if coll:
                                s.put(r, 0, st, ct, None, form='vara', coll=1, tag=tag + r)
                            else:
                                s.put(r, 0, st, ct, None, form='vara', coll=0, tag=tag + r)
                        # documented handshake for cross-rank visibility
                        if not coll:
                            s.op('*', 'sync'); s.op('*', 'barrier'); s.op('*', 'sync')
                        else:
                            s.op('*', 'barrier')
                        s.get_all('*', 0, coll=coll)          # identical read region on all ranks
                        if not coll: s.op('*', 'barrier')
            s.finish(in_indep=not coll)
            cases.append(s)
    return cases


# ---------------------------------------------------------------- T4 type pairs
def gen_T4(fmts):
    cases = []
    for fmt in fmts:
        xts = [1, 3, 4, 5, 6] + ([7, 8, 9, 10, 11] if fmt == 5 else [])
        vars_ = [('x%d' % xt, xt, [2]) for xt in xts] + [('txt', D.NC_CHAR, [2])]
        for coll in (1, 0):
            s = Script('T4-f%d-c%d' % (fmt, coll), 1, fmt, DIMS, vars_)
            for v in range(len(vars_)): s.put('*', v, form='var', coll=1, tag=60 + v, scale=1)
            if not coll: s.op('*', 'begin_indep')
            tag = 1
            for v, (_, xt, _) in enumerate(vars_):
                mems = ['text'] if xt == D.NC_CHAR else D.NUM_MEMS
                for wm in mems:
                    for api in (None, 'flex'):
                        tag = tag % 90 + 1
                        s.put('*', v, [1], [2], [1], form='vars', mem=wm, api=api, coll=coll, tag=tag, scale=1)
                        for rm in mems:
                            s.get('*', v, [0], [3], None, form='vara', mem=rm, api=api, coll=coll)
            s.finish(in_indep=not coll)
            cases.append(s)
    return cases


def main(tier=None):
    ck = Check('C01', 'exploration', tier)
    b = build.build('plain')
    thorough = ck.tier == 'thorough'
    scripts = []

    def base_set():
        out = []
        for fmt in (1, 2, 5):
            out += gen_T1(fmt, SHAPES[1:])
            out += gen_T2(fmt, SHAPES, [l[0] for l in LAYOUTS])
            out += gen_T5(fmt, SHAPES)
        out += gen_T2(5, SHAPES[1:4], LAYOUTS_QUICK, xtype=D.NC_DOUBLE)
        out += gen_T2(1, SHAPES[1:4], LAYOUTS_QUICK, xtype=D.NC_SHORT)
        # the same product with in-place byte swapping forced on (otherwise only requests above 4 KiB take that path) and off
        out += gen_T2(2, SHAPES[1:6], [l[0] for l in LAYOUTS], hints='nc_in_place_swap=enable')
        out += gen_T2(5, SHAPES[1:4], LAYOUTS_QUICK, xtype=D.NC_DOUBLE, hints='nc_in_place_swap=enable')
        out += gen_T2(1, SHAPES[1:4], LAYOUTS_QUICK, hints='nc_in_place_swap=disable')
        for np in (2, 3): out += gen_T3(1, SHAPES, np)
        out += gen_T3(5, SHAPES, 2)
        # the same decompositions (including processes whose piece is empty) with intra-node write aggregation: one aggregator, and two
        out += gen_T3(1, SHAPES, 2, hints='nc_num_aggrs_per_node=1') + gen_T3(2, SHAPES[1:5], 3, hints='nc_num_aggrs_per_node=1')
        out += gen_T3(5, SHAPES[1:5], 4, hints='nc_num_aggrs_per_node=2')
        out += gen_T4((1, 2, 5))
        # files in which the accessed variable is the ONLY record variable (records packed back to back: other contiguity rules)
        recshapes = [sh for sh in SHAPES if sh and sh[0] == 0]
        out += gen_T1(1, recshapes, single=True) + gen_T1(5, recshapes[1:], single=True)
        out += gen_T2(2, recshapes, LAYOUTS_QUICK, single=True) + gen_T2(1, recshapes, LAYOUTS_QUICK, xtype=D.NC_SHORT, single=True)
        return out
    scripts += base_set()
    if thorough:
        # second scope: longer dimensions, a 4-D variable, more processes, every external type under every layout
        global DIMS, NREC
        saved = (DIMS, NREC)
        DIMS = [('t', None), ('a', 3), ('b', 4), ('c', 2)]; NREC = 4
        big_shapes = [(2,), (1, 2), (0, 1), (0, 3, 1), (1, 3, 2, 3)]
        try:
            more = []
            more += gen_T1(2, big_shapes[:4])
            for fmt in (1, 5): more += gen_T2(fmt, big_shapes, [l[0] for l in LAYOUTS])
            more += gen_T5(2, big_shapes)
            for np in (2, 3, 4): more += gen_T3(5, big_shapes, np)
            for xt in (D.NC_BYTE, D.NC_SHORT, D.NC_FLOAT, D.NC_DOUBLE, D.NC_UBYTE, D.NC_USHORT, D.NC_UINT, D.NC_INT64, D.NC_UINT64):
                more += gen_T2(5, big_shapes[1:4], [l[0] for l in LAYOUTS], xtype=xt)
            for s in more: s.case.name = 'B' + s.case.name
            scripts += more
        finally:
            DIMS, NREC = saved
    results = runner.run_cases(b['vx'], [s.case for s in scripts], batch=4)
    for s, r in zip(scripts, results):
        ck.cov['evaluations'] += s.nevals
        if r.detail.startswith('FLAKE'): ck.flakes += 1
        vs = s.judge(r)
        for sig, detail in vs: ck.violation(sig, s.case.text(), s.case.name + ': ' + detail)
        # distinct outcomes: the set of distinct read-back vectors
        for rank, lines in r.ranks.items():
            for ln, o in lines.items():
                if o.get('op') == 'get': ck.outcomes.add(o.get('vals'))
    ck.cov['distinct_nontrivial'] = len(ck.outcomes)
    ck.cov['rule'] = ('exhaustive products T1 (all legal start/count/stride tuples), T2 (forms x buffer layouts x indep/coll on 6 regions per shape), '
                      'T3 (all splits across ranks incl. empty pieces, also under intra-node aggregation with 1 and 2 aggregators), T4 (external x memory type pairs), T5 (write form x read form pairs); each case ends with close, reopen, '
                      're-read and an independent decode of the file; distinct_nontrivial = number of distinct read-back value vectors observed')
    ck.cov['cases'] = len(scripts)
    ck.sample(scripts[0].case.text()[:1500]); ck.sample(scripts[len(scripts) // 2].case.text()[:1500])
    ck.assumptions += ['dimension lengths <= 3, np <= 3 (thorough: lengths <= 4, a 4-D variable, np <= 4, every external type), datatype nesting <= 2', 'Open MPI 4.1.4 OMPIO on local tmpfs/ext4',
                       'codec engine/cdf.py and model engine/model/data.py are the trusted base']
    runner.cleanup()
    return ck.finish(min_eval=500, min_outcomes=50)


if __name__ == '__main__':
    sys.exit(main(sys.argv[1] if len(sys.argv) > 1 else None))
