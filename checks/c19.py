"""C19 Memory safety on every program; malformed files fail cleanly — the other checks' cases under ASan+UBSan, and exhaustive header corruptions."""
import itertools, sys, os, re, time
sys.path.insert(0, os.path.dirname(os.path.dirname(os.path.abspath(__file__))))
from engine import build, runner, cdf
from engine.common import Check
from engine.runner import Case
from engine.script import first_frame
from engine.model import data as D

DICT4 = [0, 1, 2, 0x7F, 0xFF, 0x7FFF, 0xFFFF, 0x7FFFFFFF, 0x80000000, 0xFFFFFFFE, 0xFFFFFFFF, 0x0A, 0x0B, 0x0C]
DICT8 = [0, 1, 0xFFFFFFFF, 1 << 32, (1 << 63) - 1, 1 << 63, (1 << 64) - 1]
MAXMS = 5000.0; MAXRSS_KB = 256 * 1024


def san_frame(detail):
    m = re.search(r'(/repo/src/[^\s:]+:\d+)', detail)
    kind = re.search(r'(AddressSanitizer: [a-z\-]+|runtime error: [a-z ]+[a-z]|SEGV|CRASH sig=\d+|LeakSanitizer)', detail)
    return (kind.group(1) if kind else 'crash'), (m.group(1) if m else first_frame(detail))


def program_cases(thorough):
    """the quick-tier cases of the other checks (only the cases, not their oracles)"""
    import checks.c01 as c01, checks.c02 as c02, checks.c03 as c03, checks.c06 as c06, checks.c09 as c09, checks.c12 as c12, checks.c13 as c13, checks.c15 as c15, checks.c16 as c16, checks.c08 as c08, checks.c11 as c11
    out = []
    out += [('C01', s.case) for s in c01.gen_T1(1, c01.SHAPES_QUICK_T1[:2]) + c01.gen_T2(2, c01.SHAPES, c01.LAYOUTS_QUICK) + c01.gen_T5(1, [c01.SHAPES[2], c01.SHAPES[4]]) + c01.gen_T3(1, [c01.SHAPES[4]], 2) + c01.gen_T4((5,))]
    out += [('C02', s.case) for s in c02.gen_A(2)[::3] + c02.gen_B(c02.REPR_TRIPLES[:2]) + c02.gen_C(c02.REPR_TRIPLES[:3]) + c02.gen_D(c02.REPR_TRIPLES[:2], 2)]
    out += [('C03', p.case) for p in c03.gen((1, 5), False, (1, 2))[::2]]
    out += [('C06', p.case) for p in c06.gen((1, 5), (1, 3), (None, 8), (0, 3), ['rec1odd', 'mix'], ['tight']) + c06.gen_abort((1,), (1, 2))]
    out += [('C08', s.case) for s in c08.gen_getput(2, ['valid', 'zerolen', 'EINVALCOORDS', 'EIOMISMATCH'], ['vara', 'varm', 'varn'], vkinds=(0, 1))[::2] + c08.gen_waitall(2)]
    out += [('C09', x[0]) for x in c09.build_var_cases(5, 64) + c09.build_att_cases(5) + c09.build_var_cases(2, 64)]
    out += [('C12', s.case) for s in c12.gen((1, 2), [(8, 0, 1), (9, 1, 0), (0, 0, 1)], [('put_coll', 'put_vars_rec'), ('iput_wait', 'varn'), ('bput_wait', 'var1_short'), ('convert', 'put_indep')], ['none', 'flush', 'redef'], 'bb')]
    out += [('C13', s.case) for s in c13.gen_buffers(False)[:6]]
    out += [('C16', p.case) for p in c16.gen((1,), (1, 3), [(3, 5)], c16.SETTINGS, ['redef_add', 'fill_rec'], (0, 1))]
    out += [('C11', c11.mkcase(p, np)) for p in c11.PROGRAMS for np in (1, 2)]
    # name-table histories (define, rename, add, delete and re-add under the same name, look up) of C10
    import checks.c10 as c10
    out += [('C10', p.case) for p in c10.meta_programs()]
    # valid but unusual files (C04): one record variable of every type, variables with 17-30 dimensions
    import checks.c04 as c04
    for ver in (1, 5):
        for kind in ['manydims'] + ['onerec-%d' % xt for xt in ([2, 3] + ([7, 8, 11] if ver == 5 else []))]:
            f = c04.mkfile_schema(ver, kind); cdf.layout(f); data = c04.gen_data(f); raw = cdf.encode(f, data)
            for np in (1, 2): out.append(('C04', c04.build_case('SAN-v%d-%s-np%d' % (ver, kind, np), raw, f, data, np, 64 if np == 2 else None)[0]))
    # request queues grown across their allocation chunk (1024 sub-requests): a multi-record request counts one sub-request per record
    for kind in ('put', 'get'):
        for pending in (1023, 1024, 1025, 2048):
            for nxt in ('varn', 'vara'):
                c = Case('SAN-queue-%s-%d-%s' % (kind, pending, nxt), 1)
                c.op('*', 'create', f=0, path='q.nc', fmt=2)
                c.op('*', 'def_dim', f=0, name='t', unlim=1); c.op('*', 'def_dim', f=0, name='x', len=2)
                c.op('*', 'def_var', f=0, name='r', xtype='int', dims=[0, 1]); c.op('*', 'def_var', f=0, name='r2', xtype='short', dims=[0])
                c.op('*', 'enddef', f=0)
                c.op('*', 'put', f=0, form='vara', v=0, s=[0, 0], c=[2100, 2], coll=1, mem='int', tag=3, scale=1)
                c.op('*', 'put', f=0, form='vara', v=1, s=[0], c=[2100], coll=1, mem='short', tag=4, scale=1)
                left = pending; slot = 0; rec = 0
                while left > 0:
                    n = min(left, 256)
                    c.op('*', kind, f=0, form='vara', v=0, s=[rec, 0], c=[n, 1], mem='int', nb='i', req=slot, **({'tag': 5 + slot, 'scale': 1} if kind == 'put' else {}))
                    left -= n; rec += n; slot += 1
                if nxt == 'varn': c.op('*', kind, f=0, form='varn', v=1, mem='short', n=2, nd=1, s0=[3], c0=[2], s1=[9], c1=[1], nb='i', req=slot, **({'tag': 60, 'scale': 1} if kind == 'put' else {}))
                else: c.op('*', kind, f=0, form='vara', v=1, s=[3], c=[3], mem='short', nb='i', req=slot, **({'tag': 60, 'scale': 1} if kind == 'put' else {}))
                c.op('*', 'wait', f=0, kind='ALL', all=1)
                c.op('*', 'get', f=0, form='vara', v=1, s=[0], c=[12], coll=1, mem='short')
                c.op('*', 'close', f=0)
                out.append(('QUEUE', c))
    # two interleaved strided nonblocking requests completed by one wait_all (the flattening path sizes its segment table in one pass and fills it
    # in another): every stride vector in {1,2}^n on fixed-size and record variables of 2 and 3 dimensions, iput / iget / bput
    VARS = [('f2', 'int', [1, 2], [4, 6]), ('r2', 'int', [0, 2], [4, 6]), ('r3', 'short', [0, 1, 2], [4, 4, 6]), ('f3', 'short', [3, 1, 2], [2, 4, 6])]
    for kind in ('iput', 'iget', 'bput'):
        c = Case('SAN-interleaved-%s' % kind, 1)
        c.op('*', 'create', f=0, path='i.nc', fmt=2)
        c.op('*', 'def_dim', f=0, name='t', unlim=1); c.op('*', 'def_dim', f=0, name='y', len=4); c.op('*', 'def_dim', f=0, name='x', len=6); c.op('*', 'def_dim', f=0, name='z', len=2)
        for n, xt, dd, sh in VARS: c.op('*', 'def_var', f=0, name=n, xtype=xt, dims=dd)
        c.op('*', 'enddef', f=0)
        for v, (n, xt, dd, sh) in enumerate(VARS): c.op('*', 'put', f=0, form='vara', v=v, s=[0] * len(sh), c=sh, coll=1, mem=xt, tag=3 + v, scale=1)
        c.op('*', 'buffer_attach', f=0, size=65536)
        slot = 0
        for v, (n, xt, dd, sh) in enumerate(VARS):
            for strides in itertools.product((1, 2), repeat=len(sh)):
                cnt = [(l + st - 1) // st for l, st in zip(sh, strides)]; cnt[-1] = 3
                sa = [0] * len(sh); sb = [0] * len(sh); sb[-1] = 1 if strides[-1] == 2 else 3
                for st0 in (sa, sb):
                    kw = dict(f=0, form='vars', v=v, s=st0, c=cnt, st=list(strides), mem=xt, nb='b' if kind == 'bput' else 'i', req=slot % 60)
                    if kind != 'iget': kw.update(tag=7 + slot % 60, scale=1)
                    c.op('*', 'get' if kind == 'iget' else 'put', **kw); slot += 1
                c.op('*', 'wait', f=0, kind='ALL', all=1)
        for v, (n, xt, dd, sh) in enumerate(VARS): c.op('*', 'get', f=0, form='vara', v=v, s=[0] * len(sh), c=sh, coll=1, mem=xt)
        c.op('*', 'buffer_detach', f=0)
        c.op('*', 'close', f=0)
        out.append(('INTERLEAVED', c))
    import checks.c17 as c17
    if thorough:
        out += [('C15', x[0]) for x in c15.build_cases('d2', 1, 0, 'vars', False, list(c15.tuples_for([2, 3], False))) + c15.build_cases('rec', 1, 1, 'vars', True, list(c15.tuples_for([2, 2], False)))]
        out += [('C01', s.case) for s in c01.gen_T2(5, c01.SHAPES, [l[0] for l in c01.LAYOUTS])]
    return out


def seeds():
    """(label, File, data) for 3 formats x {minimal, dims+atts+vars, record file}"""
    import checks.c04 as c04
    out = []
    for ver in (1, 2, 5):
        for kind in ('minimal', 'fixed', 'record2'):
            f = c04.mkfile_schema(ver, kind); cdf.layout(f); data = c04.gen_data(f)
            out.append(('v%d-%s' % (ver, kind), f, cdf.encode(f, data)))
    return out


def corruptions(raw, hdr_len, pairs):
    """every truncation, every aligned 4-/8-byte header word x dictionary (and all pairs of 4-byte substitutions for small seeds)"""
    out = []
    for n in range(0, len(raw)): out.append(('trunc%d' % n, raw[:n]))
    words4 = range(0, min(hdr_len, len(raw) - 3), 4)
    for off in words4:
        for v in DICT4:
            nb = v.to_bytes(4, 'big')
            if raw[off:off + 4] != nb: out.append(('w4@%d=%x' % (off, v), raw[:off] + nb + raw[off + 4:]))
    for off in range(0, min(hdr_len, len(raw) - 7), 4):
        for v in DICT8:
            nb = v.to_bytes(8, 'big')
            if raw[off:off + 8] != nb: out.append(('w8@%d=%x' % (off, v), raw[:off] + nb + raw[off + 8:]))
    if pairs:
        small = [0, 1, 0xFF, 0x7FFFFFFF, 0xFFFFFFFF]
        for (o1, o2) in itertools.combinations(words4, 2):
            for v1 in small:
                for v2 in small:
                    b = bytearray(raw); b[o1:o1 + 4] = v1.to_bytes(4, 'big'); b[o2:o2 + 4] = v2.to_bytes(4, 'big')
                    if bytes(b) != raw: out.append(('p@%d=%x,@%d=%x' % (o1, v1, o2, v2), bytes(b)))
    return out


def malformed_case(name, raw, chunk, np=1):
    c = Case(name, np, opts=dict(tlimit=6))
    if chunk: c.op('*', 'env', PNETCDF_VERIF_HDR_CHUNK=str(chunk))
    c.op(0, 'mkfile', path='m.nc', hex=raw.hex() if raw else None)
    c.op('*', 'barrier')
    lo = c.op('*', 'open', f=0, path='m.nc', write=0)
    ls = c.op('*', 'sweep', f=0, nomfp=1)
    gets = []      # the property is about opening: data reads from a corrupted-but-accepted file are not judged
    lc = c.op('*', 'close', f=0)
    return c, (lo, ls, gets, lc)


def main(tier=None):
    ck = Check('C19', 'exploration', tier)
    b = build.build('san')
    thorough = ck.tier == 'thorough'
    t0 = time.time()
    # (a) valid programs under the sanitizers
    progs = program_cases(thorough)
    res = runner.run_cases(b['vx'], [c for _, c in progs], batch=6, timeout=900)
    nprog = 0
    for (src, c), r in zip(progs, res):
        nprog += 1
        ck.outcomes.add((src, r.status))
        if r.status in ('asan', 'crash', 'timeout'):
            kind, frame = san_frame(r.detail)
            ck.violation(('sanitizer' if r.status == 'asan' else r.status, kind, frame), c.text()[:20000], '%s (program of %s): %s' % (c.name, src, r.detail[:1500]))
    # (b) malformed inputs
    mal = []
    for label, f, raw in seeds():
        small = len(raw) < 120
        for clabel, bad in corruptions(raw, f.hdr_len, pairs=(thorough and small)):
            for chunk in ((None, 36, 64) if thorough else (None, 36)):
                if chunk == 64 and clabel.startswith('p@'): continue
                name = 'MAL-%s-%s-c%s' % (label, clabel, chunk)
                c, ctx = malformed_case(name, bad, chunk)
                mal.append((c, ctx, len(bad)))
    # memory safety under the sanitizers (absurd allocations are refused by the sanitizer runtime so that they fail fast) ...
    res_s = runner.run_cases(b['vx'], [x[0] for x in mal], batch=100, timeout=300, confirm_timeout=40,
                             env_extra={'ASAN_OPTIONS': runner.MPI_ENV['ASAN_OPTIONS'] + ':max_allocation_size_mb=512'})
    for (c, ctx, n), r in zip(mal, res_s):
        if r.status in ('asan', 'crash'):
            kind, frame = san_frame(r.detail)
            ck.violation(('sanitizer' if r.status == 'asan' else r.status, 'open of malformed file: ' + kind, frame), c.text(), '%s: %s' % (c.name, r.detail[:1500]))
    # ... time, memory and self-consistency on the uninstrumented build
    bp = build.build('plain')
    res2 = runner.run_cases(bp['vx'], [x[0] for x in mal], batch=100, timeout=300, confirm_timeout=40)
    accepted = 0
    for (c, (lo, ls, gets, lc), n), r in zip(mal, res2):
        if r.status == 'timeout':
            ck.violation(('slow', 'open of malformed file', 'time limit'), c.text(), '%s: a %d-byte input keeps the library busy for more than 6 s (size taken from an untrusted count)' % (c.name, n)); continue
        if r.status != 'ok':
            kind, frame = san_frame(r.detail)
            ck.violation(('sanitizer' if r.status == 'asan' else r.status, 'open of malformed file: ' + kind, frame), c.text(), '%s: %s' % (c.name, r.detail[:1500])); continue
        o = r.r(0, lo)
        end = r.end.get(0, {})
        ms = float(end.get('ms', 0)); rss = int(end.get('rss_kb', 0))
        if ms > MAXMS: ck.violation(('slow', 'open of malformed file', 'time'), c.text(), '%s: %d-byte input took %.0f ms' % (c.name, n, ms))
        if rss > MAXRSS_KB: ck.violation(('memory', 'open of malformed file', 'rss'), c.text(), '%s: %d-byte input grew the resident set by %d KiB' % (c.name, n, rss))
        ck.outcomes.add(('mal', o.rc))
        if o.rc == 0:
            accepted += 1
            sw = r.r(0, ls).json()
            if sw.get('rc') != 0:
                ck.violation(('inconsistent_metadata', 'inq after successful open', 'inq fails'), c.text(), '%s: open succeeded but ncmpi_inq returns %s' % (c.name, sw.get('rc'))); continue
            # by-id inquiries must all succeed; lookups BY NAME are not required to (a corrupted name may be empty or illegal and then cannot be named through the API)
            bad = [x for x in sw.get('dims', []) if x.get('rc') != 0] + [x for x in sw.get('vars', []) if x.get('rc') != 0] + [x for x in sw.get('gatts', []) if x.get('rc') not in (0, None)]
            if bad or len(sw.get('dims', [])) != sw.get('nd') or len(sw.get('vars', [])) != sw.get('nv'):
                ck.violation(('inconsistent_metadata', 'inq after successful open', 'object inquiry fails'), c.text(), '%s: open succeeded but the metadata is not self-consistent: %s' % (c.name, bad[:2])); continue
    ck.cov['evaluations'] = nprog + len(mal)
    ck.cov['programs_under_sanitizers'] = nprog; ck.cov['malformed_inputs'] = len(mal); ck.cov['malformed_accepted_and_consistent'] = accepted
    ck.cov['distinct_nontrivial'] = len(set(x[0].ops[-6] if len(x[0].ops) > 6 else x[0].name for x in mal))
    ck.cov['rule'] = ('(a) the quick-tier cases of C01, C02, C03, C06, C08, C09, C10 (name-table histories), C11, C12, C13, C16 (thorough: + C15, full C01 layouts) plus valid unusual files of C04, request queues of 1023 / 1024 / 1025 / 2048 pending sub-requests, and pairs of interleaved strided nonblocking requests (every stride vector in {1,2}^n on fixed and record variables of 2-3 dimensions, iput / iget / bput, one wait_all) executed on the library built with -fsanitize=address,undefined: any report or signal is a violation keyed by '
                      'error kind and innermost /repo/src frame. (b) 9 encoder-made seed files (3 formats x minimal / dims+atts+vars / record file): every truncation length, every 4-byte header word x 14 extreme values, every 8-byte window x 7 values'
                      '%s, opened with header chunk default/36%s, followed by a full inquiry sweep and reads: no report, no signal, <= 5 s and <= 256 MiB per input, open fails with a netCDF error or the metadata is self-consistent' % (
                          ', all pairs of 4-byte substitutions for the minimal seeds' if thorough else '', '/64' if thorough else ''))
    ck.sample(mal[len(mal) // 2][0].text()[:800])
    ck.assumptions += ['sanitizers are the oracle inside enumerated executions; leaks are judged by C17\'s ledger, not by LeakSanitizer', 'the executor, shim and board are not instrumented']
    runner.cleanup()
    return ck.finish(min_eval=500, min_outcomes=5)


if __name__ == '__main__':
    sys.exit(main(sys.argv[1] if len(sys.argv) > 1 else None))
