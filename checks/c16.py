"""C16 Fill-value semantics — schemas x fill settings x np x follow-ups, read back through the API and the independent decoder."""
import itertools, sys, os
sys.path.insert(0, os.path.dirname(os.path.dirname(os.path.abspath(__file__))))
from engine import build, runner
from engine.common import Check
from engine.prog import Prog
from engine.bfs import emit_std
from engine.model import data as D

TYPES = [D.NC_INT, D.NC_SHORT, D.NC_DOUBLE, D.NC_BYTE, D.NC_FLOAT, D.NC_CHAR]
FILLV = {D.NC_INT: -5, D.NC_SHORT: 7, D.NC_DOUBLE: 2.5, D.NC_BYTE: 9, D.NC_FLOAT: -1.5, D.NC_CHAR: 120}


def schema(k, sizes):
    """dims: t(unlim), a, b ; three variables of different kinds, element counts from `sizes` so that per-rank shares are uneven"""
    a, b = sizes
    dims = [('t', None), ('a', a), ('b', b)]
    t = TYPES
    vs = [('f0', t[k % 6], [1]), ('r0', t[(k + 1) % 6], [0, 2]), ('f1', t[(k + 2) % 6], [1, 2]), ('r1', t[(k + 3) % 6], [0])]
    return dims, vs[:3] if k % 2 else vs


SETTINGS = ['dataset_before', 'dataset_between', 'dataset_after', 'pervar', 'pervar_value', 'attr', 'dataset_then_nofill', 'none', 'fill_nofill_fill', 'nofill_fill_nofill']
FOLLOW = ['none', 'partial', 'redef_add', 'fill_rec', 'redef_twice', 'indep_redef', 'redef_fixed_gap', 'redef_fixed_ralign']


def define(p, dims, vars_, setting):
    m = p.m
    if setting == 'dataset_before': p.do(dict(op='set_fill', mode=1))
    for n, l in dims: p.do(dict(op='def_dim', name=n, len=l))
    for i, (n, t, dd) in enumerate(vars_):
        p.do(dict(op='def_var', name=n, xtype=t, dims=dd))
        if setting == 'dataset_between' and i == 0: p.do(dict(op='set_fill', mode=1))
        if setting == 'pervar' and i % 2 == 0: p.do(dict(op='def_var_fill', v=i, nofill=0))
        if setting == 'pervar_value' and i != 1: p.do(dict(op='def_var_fill', v=i, nofill=0, val=FILLV[t], xtype=t))
        if setting == 'attr' and i != 2:
            p.do(dict(op='put_att', v=i, name='_FillValue', xtype=t, vals=(bytes([FILLV[t]]) if t == D.NC_CHAR else [FILLV[t]])))
    if setting == 'dataset_after': p.do(dict(op='set_fill', mode=1))
    if setting == 'fill_nofill_fill':
        # the dataset mode is already FILL, single variables are switched off, then set_fill(FILL) is called again: it applies to every variable defined so far
        p.do(dict(op='set_fill', mode=1))
        for i in range(0, len(vars_), 2): p.do(dict(op='def_var_fill', v=i, nofill=1))
        p.do(dict(op='set_fill', mode=1))
    if setting == 'nofill_fill_nofill':
        p.do(dict(op='set_fill', mode=0))
        for i in range(1, len(vars_), 2): p.do(dict(op='def_var_fill', v=i, nofill=0))
        p.do(dict(op='set_fill', mode=0))
        p.do(dict(op='def_var_fill', v=0, nofill=0))
    if setting == 'dataset_then_nofill':
        p.do(dict(op='set_fill', mode=1)); p.do(dict(op='def_var_fill', v=0, nofill=1))


def memof(t): return 'text' if t == D.NC_CHAR else D.XT_MEM[t]


def partial_writes(p, nrec):
    """write some elements of every variable; the rest must keep fill / stay as it was"""
    for v in range(len(p.m.vars)):
        var = p.m.vars[v]; sh = p.m.shape(v); t = var['xtype']
        if p.m.isrec(v):
            if nrec == 0: continue
            st = [nrec - 1] + [0] * (len(sh) - 1); ct = [1] + [max(1, x // 2) for x in sh[1:]]
        else:
            st = [x // 2 for x in sh]; ct = [max(1, x - x // 2 - (1 if x > 2 else 0)) for x in sh]
        n = 1
        for c in ct: n *= c
        p.tag += 1
        p.do(dict(op='put', v=v, start=st, count=ct, vals=[(p.tag * 3 + k) % 50 + 30 for k in range(n)], coll=1, mem=memof(t)))


def gen(fmts, nps, sizes_list, settings, follows, ks):
    progs = []
    for fmt, np, sizes, setting, fol, k in itertools.product(fmts, nps, sizes_list, settings, follows, ks):
        dims, vars_ = schema(k, sizes)
        if fmt != 5: pass
        p = Prog('F-f%d-np%d-s%dx%d-%s-%s-k%d' % (fmt, np, sizes[0], sizes[1], setting, fol, k), np, fmt)
        define(p, dims, vars_, setting)
        # *_gap / *_ralign: free space in front of the record section, so that a later added fixed-size variable fits without moving anything
        if fol == 'redef_fixed_gap': p.do(dict(op='_enddef', h_minfree=256, v_align=4, v_minfree=600, r_align=4))
        elif fol == 'redef_fixed_ralign': p.do(dict(op='_enddef', h_minfree=256, v_align=4, v_minfree=0, r_align=1024))
        else: p.do(dict(op='enddef'))
        p.case.op('*', 'sweep', f=0, nomfp=1)
        p.read_all('after defining enddef'); p.checkpoint('defining enddef')
        nrec = 0
        if fol in ('partial', 'redef_add', 'redef_twice', 'fill_rec', 'redef_fixed_gap', 'redef_fixed_ralign'):
            nrec = {'partial': 2, 'redef_add': 3, 'redef_twice': 1, 'fill_rec': 0, 'redef_fixed_gap': 2, 'redef_fixed_ralign': 2}[fol]
            partial_writes(p, nrec)
            p.read_all('after partial writes')
        if fol == 'fill_rec':
            # a collective access with a non-contiguous file layout (two records, part of the inner dimension) right before the fills:
            # whatever file view it leaves behind may not influence where the fill values land
            for v in range(len(p.m.vars)):
                sh = p.m.shape(v)
                if p.m.isrec(v) and len(sh) >= 2 and sh[1] >= 2:
                    t = p.m.vars[v]['xtype']; cnt = [2] + [max(1, sh[1] - 1)] + sh[2:]
                    n = 1
                    for x in cnt: n *= x
                    p.tag += 1
                    p.do(dict(op='put', v=v, start=[3] + [0] * (len(sh) - 1), count=cnt, vals=[(p.tag * 3 + j) % 50 + 30 for j in range(n)], coll=1, mem=memof(t)))
                    break
            for v in range(len(p.m.vars)):
                if p.m.isrec(v) and p.m.fill_enabled(v) and p.m.vars[v]['nofill'] is not None:
                    p.do(dict(op='fill_var_rec', v=v, rec=0)); p.do(dict(op='fill_var_rec', v=v, rec=2))
            p.read_all('after fill_var_rec')
            # then overwrite part of a filled record: the rest of the record keeps the fill
            partial_writes(p, 3)
            p.read_all('after writing into filled records')
        if fol == 'indep_redef':
            # independent data mode: rank k writes record k only, so the in-memory record counts differ between the processes;
            # then redefine directly from independent mode: the new fill-mode record variable must be filled for *all* records
            rv = next(v for v in range(len(p.m.vars)) if p.m.isrec(v))
            p.do(dict(op='begin_indep'))
            sh = p.m.shape(rv); t = p.m.vars[rv]['xtype']; inner = p.m.inner(rv)
            for rank in range(np):
                o = dict(op='put', v=rv, start=[rank] + [0] * (len(sh) - 1), count=[1] + sh[1:], vals=[(rank * 5 + j) % 40 + 50 for j in range(inner)], coll=0, mem=memof(t))
                rcs, st = p.m.apply(o); assert 0 in rcs; p.m = st
                p.rc_lines.append((emit_std(p.case, rank, o, None), 0))
        if fol in ('redef_fixed_gap', 'redef_fixed_ralign'):
            # only fixed-size variables are added, small enough for the free space: neither the header extent nor the record section moves
            for rep in range(2):
                p.do(dict(op='redef'))
                nv = len(p.m.vars); t1 = TYPES[(k + rep) % 6]
                p.do(dict(op='def_var', name='gf%d' % rep, xtype=t1, dims=[2, 1]))
                if not p.m.fillmode: p.do(dict(op='def_var_fill', v=nv, nofill=0, val=FILLV[t1], xtype=t1))
                p.do(dict(op='enddef'))
                p.read_all('after redef %d adding a fixed-size variable into free space' % (rep + 1)); p.checkpoint('enddef after gap redef %d' % (rep + 1))
        if fol in ('redef_add', 'redef_twice', 'indep_redef'):
            for rep in range(2 if fol == 'redef_twice' else 1):
                p.do(dict(op='redef'))
                nv = len(p.m.vars)
                t1 = TYPES[(k + rep) % 6]; t2 = TYPES[(k + rep + 3) % 6]
                p.do(dict(op='def_var', name='nf%d' % rep, xtype=t1, dims=[2, 1]))
                p.do(dict(op='def_var', name='nr%d' % rep, xtype=t2, dims=[0, 1]))
                if not p.m.fillmode:
                    p.do(dict(op='def_var_fill', v=nv, nofill=0)); p.do(dict(op='def_var_fill', v=nv + 1, nofill=0, val=FILLV[t2], xtype=t2))
                p.do(dict(op='put_att', v=-1, name='grow%d' % rep, xtype=D.NC_INT, vals=list(range(40))))
                p.do(dict(op='enddef'))
                p.read_all('after redef %d adding variables' % (rep + 1)); p.checkpoint('enddef after redef %d' % (rep + 1))
        p.do(dict(op='close')); p.checkpoint('close', closed=True)
        progs.append(p)
    return progs


def gen_rules():
    """attribute rules: _FillValue of the wrong type / wrong length is rejected; NC_ELATEFILL"""
    progs = []
    p = Prog('RULES', 1, 1)
    p.do(dict(op='def_dim', name='x', len=3)); p.do(dict(op='def_var', name='v', xtype=D.NC_INT, dims=[0]))
    p.do(dict(op='put_att', v=0, name='_FillValue', xtype=D.NC_SHORT, vals=[1]), expect=D.NC_EBADTYPE)
    p.do(dict(op='put_att', v=0, name='_FillValue', xtype=D.NC_INT, vals=[1, 2]), expect=D.NC_EINVAL)
    p.do(dict(op='put_att', v=0, name='_FillValue', xtype=D.NC_INT, vals=[4]))
    p.do(dict(op='enddef')); p.read_all('rules enddef')
    p.do(dict(op='redef'))
    p.do(dict(op='put_att', v=0, name='_FillValue', xtype=D.NC_INT, vals=[5]), expect=D.NC_ELATEFILL)
    p.do(dict(op='def_var', name='w', xtype=D.NC_INT, dims=[0]))
    p.do(dict(op='put_att', v=1, name='_FillValue', xtype=D.NC_INT, vals=[6]))
    p.do(dict(op='enddef')); p.read_all('rules redef')
    p.do(dict(op='close')); p.checkpoint('close', closed=True)
    progs.append(p)
    return progs


def main(tier=None):
    ck = Check('C16', 'exploration', tier)
    b = build.build('plain')
    thorough = ck.tier == 'thorough'
    if thorough:
        progs = gen((1, 2, 5), (1, 2, 3, 4), [(1, 3), (3, 5), (5, 7), (7, 1)], SETTINGS, FOLLOW, range(6))
    else:
        progs = gen((1,), (1, 3), [(3, 5)], SETTINGS, FOLLOW, (0, 1, 4)) + gen((5,), (2, 4), [(7, 1), (5, 7)], SETTINGS[:6] + SETTINGS[8:], ['redef_add', 'fill_rec', 'indep_redef', 'redef_fixed_gap'], (2, 3))
    progs += gen_rules()
    results = runner.run_cases(b['vx'], [p.case for p in progs], batch=40)
    for p, r in zip(progs, results):
        ck.cov['evaluations'] += 1
        if r.detail.startswith('FLAKE'): ck.flakes += 1
        for sig, detail in p.judge(r): ck.violation(sig, p.case.text(), p.case.name + ': ' + detail)
        if r.status == 'ok':
            for k in r.ranks:
                for ln, o in r.ranks[k].items():
                    if o.get('op') == 'get': ck.outcomes.add(o.get('vals'))
    ck.cov['distinct_nontrivial'] = len(ck.outcomes)
    ck.cov['rule'] = ('schemas of 3-4 variables (fixed/record, 6 external types, element counts 1,3,5,7 so that the per-process shares are uneven) x fill setting {set_fill before/between/after the definitions, def_var_fill with and '
                      'without value on a subset, _FillValue attribute put directly, dataset fill with one explicit no_fill variable, none, set_fill repeated with the same mode after per-variable changes (fill / no-fill / fill and the reverse)} x np 1-4 x follow-up {none, partial writes, redefinition adding a fixed and a record '
                      'variable with 1-3 records present (once/twice), fill_var_rec + writes into filled records, independent-mode writes of a different number of records per process followed by a redefinition entered directly from independent mode, fixed-size fill variables added into free space left by v_minfree / record alignment}; every variable is read back on every rank after each step and the decoded file is compared; distinct_nontrivial = distinct read-back vectors')
    ck.sample(progs[0].case.text()[:1500]); ck.sample(progs[len(progs) // 2].case.text()[:1800])
    ck.assumptions += ['records created implicitly by writing a higher record are undefined content and never compared']
    runner.cleanup()
    return ck.finish(min_eval=100, min_outcomes=30)


if __name__ == '__main__':
    sys.exit(main(sys.argv[1] if len(sys.argv) > 1 else None))
