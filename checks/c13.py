"""C13 Caller buffers are respected; attached-buffer accounting is exact — buffer products + BFS over the attached-buffer protocol."""
import itertools, sys, os, time
sys.path.insert(0, os.path.dirname(os.path.dirname(os.path.abspath(__file__))))
from engine import build, runner
from engine.common import Check
from engine.runner import Case
from engine.script import Script, first_frame
from engine.bfs import HistoryBFS, emit_std
from engine.model.filemodel import FileModel, COLL
from engine.model import data as D

N = 1026           # elements per variable: requests of 1023/1024/1025 ints sit on both sides of the 4096-byte in-place-swap threshold
SIZES_INT = [1, 3, 1023, 1024, 1025]
XT = [D.NC_SHORT, D.NC_INT, D.NC_FLOAT, D.NC_DOUBLE, D.NC_INT64]
LAYS = [None, 'vec:1:2', 'idx', 'rsz:1:3', 'cont2']
HINTS = [None, 'nc_in_place_swap=enable', 'nc_in_place_swap=disable']


def sizes_for(xt):
    """element counts whose external byte size straddles 4096"""
    w = D.XT_SIZE[xt]
    k = 4096 // w
    return [1, 3, k - 1, k, k + 1]


def gen_buffers_mp(thorough):
    """several processes, intra-node write aggregation on: collective blocking and nonblocking writes of every process leave its buffer untouched"""
    scripts = []
    for np in ((2, 3, 4) if thorough else (2, 3)):
        for agg in (1, 2):
            if agg >= np: continue
            for swap in (None, 'nc_in_place_swap=enable'):
                for xt in ([D.NC_SHORT, D.NC_INT, D.NC_FLOAT, D.NC_DOUBLE] if thorough else [D.NC_INT, D.NC_DOUBLE]):
                    k = 4096 // D.XT_SIZE[xt]
                    hint = 'nc_num_aggrs_per_node=%d' % agg + (';' + swap if swap else '')
                    XL = np * (k + 8) + 16
                    s = Script('BUFMP-np%d-ag%d-%s-x%d' % (np, agg, 'swap' if swap else 'auto', xt), np, 2, [('x', XL), ('t', None)], [('v', xt, [0]), ('r', xt, [1, 0])], hints=hint)
                    s.put(0, 0, [0], [XL], None, form='vara', coll=1, tag=5, scale=1)
                    for r in range(1, np): s.op(r, 'put', f=0, form='vara', v=0, s=[0], c=[0], coll=1, mem=D.XT_MEM[xt])
                    tag = 0
                    for n in (3, k + 1):
                        for path in ('blocking', 'flex', 'iput-wait_all', 'varn', 'record'):
                            for r in range(np):
                                tag = tag % 90 + 1
                                st = [2 + r * (k + 4)]
                                if path == 'blocking': s.put(r, 0, st, [n], None, form='vara', coll=1, tag=tag, scale=1)
                                elif path == 'flex': s.put(r, 0, st, [n], None, form='vara', coll=1, tag=tag, scale=1, api='flex')
                                elif path == 'varn': s.put(r, 0, form='varn', boxes=[(st, [n // 2 + 1]), ([st[0] + n // 2 + 1], [n - n // 2 - 1])], coll=1, tag=tag, scale=1)
                                elif path == 'record': s.put(r, 1, [r, st[0]], [1, n], None, form='vara', coll=1, tag=tag, scale=1)
                                else:
                                    ln, idx, vals = s.put(r, 0, st, [n], None, form='vara', nb='i', req=r, tag=tag, update=False, scale=1)
                                    s.op(r, 'wait', f=0, ids=['q%d' % r], all=1); s.model.put_idx(0, idx, vals)
                                    lr = s.op(r, 'rbuf', expect_rc=None, req=r)
                                    s.add_expect(lr, lambda o, rk, lr=lr: None if o.get('mod') in (None, '0') else (('buffer_modified', 'iput', 'after wait_all under aggregation'), 'line %d rank %d: write buffer differs from its posting-time content' % (lr, rk)), [r])
                            s.get_all('*', 0, coll=1, what='file content')
                    s.finish()
                    scripts.append(s)
    return scripts


def gen_buffers(thorough):
    scripts = []
    for hint in HINTS:
        for xt in (XT if thorough else [D.NC_SHORT, D.NC_INT, D.NC_DOUBLE]):
            fmt = 5 if xt == D.NC_INT64 else 2
            mems = [D.XT_MEM[xt], 'double' if xt != D.NC_DOUBLE else 'float']          # same type (swap only) and converting
            for mem in mems:
                XL = 2 * (4096 // D.XT_SIZE[xt] + 1) + 40
                s = Script('BUF-%s-x%d-%s' % ((hint or 'auto').split('=')[-1], xt, mem), 1, fmt, [('x', XL), ('t', None)], [('v', xt, [0]), ('r', xt, [1, 0])], hints=hint)
                s.put('*', 0, [0], [XL], None, form='vara', coll=1, tag=5, scale=1)
                s.op('*', 'buffer_attach', size=1 << 20)
                tag = 0; slot = 0
                for n in sizes_for(xt):
                    for lay in (LAYS if thorough else [None, 'vec:1:2', 'cont2', 'rsz:1:2']):
                        if lay and n > 1025: continue
                        for path in ('blocking', 'iput-wait_all', 'iput-cancel', 'bput-wait_all', 'bput-poke', 'varn', 'ivarn-wait', 'vard', 'varm-pad', 'erange', 'eiomismatch', 'indep-wait'):
                            tag = tag % 90 + 1
                            st = [3]; ct = [n]
                            kw = dict(mem=mem, lay=lay, scale=1)
                            if path == 'blocking': s.put('*', 0, st, ct, None, form='vara', coll=1, tag=tag, **kw)
                            elif path in ('iput-wait_all', 'iput-cancel', 'bput-wait_all', 'bput-poke', 'indep-wait'):
                                nb = 'b' if path.startswith('bput') else 'i'
                                if path == 'indep-wait': s.op('*', 'begin_indep')
                                ln, idx, vals = s.put('*', 0, st, ct, None, form='vara', nb=nb, req=slot, tag=tag, update=False, **kw)
                                if path == 'bput-poke': s.op('*', 'poke', req=slot)          # the user may reuse the buffer right after bput returns
                                if path == 'iput-cancel': s.op('*', 'cancel', f=0, ids=['q%d' % slot])
                                else:
                                    s.op('*', 'wait', f=0, ids=['q%d' % slot], all=0 if path == 'indep-wait' else 1)
                                    s.model.put_idx(0, idx, vals)
                                lr = s.op('*', 'rbuf', req=slot)
                                def chk(o, rk, lr=lr, path=path, n=n, lay=lay):
                                    if o.get('mod') != '0': return (('buffer_modified', path, 'after completion'), 'line %d: user write buffer (%d elements, layout %s) changed between posting and %s' % (lr, n, lay, path))
                                s.add_expect(lr, chk)
                                if path == 'indep-wait': s.op('*', 'end_indep')
                                slot = (slot + 1) % 100
                            elif path == 'varn':
                                if n < 2: continue
                                s.put('*', 0, form='varn', boxes=[([3], [n // 2]), ([3 + n // 2], [n - n // 2])], coll=1, tag=tag, **kw)
                            elif path == 'ivarn-wait':
                                if n < 2: continue
                                ln, idx, vals = s.put('*', 0, form='varn', boxes=[([3], [n // 2]), ([3 + n // 2], [n - n // 2])], nb='i', req=slot, tag=tag, update=False, **kw)
                                s.op('*', 'wait', f=0, ids=['q%d' % slot], all=1); s.model.put_idx(0, idx, vals)
                                lr = s.op('*', 'rbuf', req=slot)
                                s.add_expect(lr, lambda o, rk, lr=lr: None if o.get('mod') == '0' else (('buffer_modified', 'iput_varn', 'after completion'), 'line %d: iput_varn buffer changed' % lr))
                                slot = (slot + 1) % 100
                            elif path == 'vard':
                                s.put('*', 0, st, ct, None, form='vard', api='flex', coll=1, tag=tag, **kw)
                            elif path == 'varm-pad':
                                if lay: continue
                                s.put('*', 0, st, ct, [1], form='varm', imap=[2], coll=1, tag=tag, mem=mem, scale=1)
                            elif path == 'erange':
                                if mem != 'double' or xt in (D.NC_DOUBLE, D.NC_FLOAT): continue
                                # values far outside the external type: NC_ERANGE, buffer still untouched
                                ln = s.op('*', 'put', expect_rc=D.NC_ERANGE, f=0, form='vara', v=0, s=st, c=ct, coll=1, mem='double', lay=lay, vals=','.join(['1e30'] * n))
                                s.add_expect(ln, lambda o, rk, ln=ln: None if o.get('mod') == '0' else (('buffer_modified', 'put', 'NC_ERANGE return'), 'line %d: buffer changed by a put that returned NC_ERANGE' % ln))
                                s.put('*', 0, st, ct, None, form='vara', coll=1, tag=tag, mem=mem, scale=1)      # restore model-known content
                            elif path == 'eiomismatch':
                                ln = s.op('*', 'put', expect_rc=D.NC_EIOMISMATCH, f=0, form='vara', v=0, s=st, c=ct, coll=1, mem=mem, api='flex', bufcount=n + 1, nel=n + 1, tag=tag, scale=1)
                                s.add_expect(ln, lambda o, rk, ln=ln: None if o.get('mod') == '0' else (('buffer_modified', 'put', 'NC_EIOMISMATCH return'), 'line %d: buffer changed by a rejected put' % ln))
                            # file must hold what the buffer held at posting time
                            s.get('*', 0, [0], [n + 8], None, form='vara', coll=1, what='file content')
                        # reads change exactly the bytes of the type map
                        s.get('*', 0, st, [n], None, form='vara', coll=1, mem=mem, lay=lay, what='read into guarded buffer')
                        if n >= 2 and not lay: s.get('*', 0, st, [n], [1], form='varm', imap=[2], coll=1, mem=mem, what='read through padded imap')
                # several requests pending at once: cancel / complete ONE of them by id (every queue position), then the rest
                for n in sizes_for(xt)[2:]:
                    for which in (0, 1, 2):
                        for how in ('cancel', 'wait'):
                            tag = tag % 80 + 1
                            regs = [(0, [3], [n]), (0, [3 + n + 5], [n]), (1, [0, 0], [1, n])]
                            posted = []
                            for j, (v, st, ct) in enumerate(regs):
                                ln, idx, vals = s.put('*', v, st, ct, None, form='vara', nb='i', req=40 + j, tag=tag + j, update=False, mem=mem, scale=1)
                                posted.append((v, idx, vals))
                            s.op('*', 'cancel' if how == 'cancel' else 'wait', f=0, ids=['q%d' % (40 + which)], **({} if how == 'cancel' else {'all': 1}))
                            if how == 'wait': s.model.put_idx(posted[which][0], posted[which][1], posted[which][2])
                            for j in (which,):        # buffers of requests that are still pending may legitimately be in swapped state
                                lr = s.op('*', 'rbuf', req=40 + j)
                                s.add_expect(lr, lambda o, rk, lr=lr, j=j, which=which, how=how: None if o.get('mod') == '0' else (('buffer_modified', 'iput', '%s of another/own request while several are pending' % how), 'line %d: buffer of request %d changed after %s of request %d' % (lr, j, how, which)))
                            rest = [j for j in range(3) if j != which]
                            s.op('*', 'wait', f=0, ids=['q%d' % (40 + j) for j in rest], all=1)
                            for j in rest: s.model.put_idx(posted[j][0], posted[j][1], posted[j][2])
                            for j in range(3):
                                lr = s.op('*', 'rbuf', req=40 + j)
                                s.add_expect(lr, lambda o, rk, lr=lr, j=j: None if o.get('mod') == '0' else (('buffer_modified', 'iput', 'after final wait'), 'line %d: buffer of request %d changed' % (lr, j)))
                            s.get('*', 0, [0], [2 * n + 12], None, form='vara', coll=1, what='file content (multi)')
                            s.get('*', 1, [0, 0], [1, n], None, form='vara', coll=1, what='file content (multi)')
                s.op('*', 'buffer_detach')
                s.finish(reopen=False, decode=False)
                scripts.append(s)
    return scripts


def gen_bput_reuse():
    """attached-buffer slots: bput A, bput B, only A is retired (served or cancelled), bput C, then B and C are completed in either order:
    every buffered write stores the values its buffer held at posting time (a slot given to C may not overlap one a pending request still owns)"""
    out = []
    for how in ('wait', 'cancel'):
        for sizes in ((3, 3, 3), (4, 2, 3), (2, 4, 2), (3, 3, 6), (1, 5, 5)):
            for order in ('BC', 'CB', 'ALL'):
                s = Script('ABUF-reuse-%s-%s-%s' % (how, '.'.join(map(str, sizes)), order), 1, 1, [('x', 40)], [('v', D.NC_INT, [0])])
                s.put('*', 0, form='var', coll=1, tag=70)
                s.op('*', 'buffer_attach', size=64)
                posted = {}
                for q, name in enumerate('AB'):
                    ln, idx, vals = s.put('*', 0, [10 * q], [sizes[q]], None, form='vara', nb='b', req=q, tag=11 + q, update=False); posted[name] = (q, idx, vals)
                if how == 'wait': s.op('*', 'wait', f=0, ids=['q0'], all=1); s.model.put_idx(0, posted['A'][1], posted['A'][2])
                else: s.op('*', 'cancel', f=0, ids=['q0'])
                ln, idx, vals = s.put('*', 0, [20], [sizes[2]], None, form='vara', nb='b', req=2, tag=13, update=False); posted['C'] = (2, idx, vals)
                if order == 'ALL': s.op('*', 'wait', f=0, kind='ALL', all=1)
                else:
                    for name in order: s.op('*', 'wait', f=0, ids=['q%d' % posted[name][0]], all=1)
                for name in 'BC': s.model.put_idx(0, posted[name][1], posted[name][2])
                s.get_all('*', 0, coll=1, what='file content after buffered writes through reused slots')
                s.op('*', 'buffer_detach')
                s.finish()
                out.append(s)
    return out


def gen_bput_exact():
    """buffered puts whose memory type and external type differ in size, through vara and varn: the space a request takes is its size in the
    file's type; attached exactly that much it is accepted (and a further one-element put refused), attached one byte less it is refused"""
    out = []
    pairs = [('double', D.NC_FLOAT), ('float', D.NC_DOUBLE), ('int', D.NC_BYTE), ('short', D.NC_INT), ('longlong', D.NC_SHORT), ('int', D.NC_INT)]
    for mem, xt in pairs:
        for form in ('vara', 'varn'):
            need = 5 * D.XT_SIZE[xt]
            for attach in (need, need - 1):
                s = Script('ABUF-exact-%s-x%d-%s-%d' % (mem, xt, form, attach - need), 1, 2, [('x', 12)], [('v', xt, [0])])
                s.put('*', 0, form='var', coll=1, tag=70, scale=1)
                s.op('*', 'buffer_attach', size=attach)
                fits = attach >= need
                kw = dict(form='varn', boxes=[([0], [2]), ([4], [3])]) if form == 'varn' else dict(form='vara', start=[1], count=[5])
                ln, idx, vals = s.put('*', 0, nb='b', req=0, tag=11, mem=mem, scale=1, update=False, expect_rc=0 if fits else D.NC_EINSUFFBUF, **kw)
                def usage(want, when):
                    lu = s.op('*', 'inq_buffer_usage', f=0)
                    s.add_expect(lu, lambda o, rk, lu=lu, want=want, when=when: None if int(o.get('n', -1)) == want else (('busage', 'inq_buffer_usage', when), 'line %d: usage %s, the pending buffered puts take %d bytes' % (lu, o.get('n'), want)))
                usage(need if fits else 0, 'after a converting bput')
                if fits:
                    s.put('*', 0, [9], [1], None, form='vara', nb='b', req=1, tag=12, mem=mem, scale=1, update=False, expect_rc=D.NC_EINSUFFBUF)
                    usage(need, 'after a refused bput')
                    s.op('*', 'wait', f=0, kind='ALL', all=1)
                    s.model.put_idx(0, idx, vals)
                    usage(0, 'after wait_all')
                s.get_all('*', 0, coll=1, what='file content after a converting buffered put')
                s.op('*', 'buffer_detach')
                s.finish()
                out.append(s)
    return out


# ---------------------------------------------------------------- attached-buffer accounting (BFS)
def abuf_init():
    m = FileModel(1)
    ops = [dict(op='def_dim', name='x', len=256), dict(op='def_var', name='b', xtype=D.NC_BYTE, dims=[0]), dict(op='enddef')]
    for o in ops:
        rcs, st = m.apply(o); m = st
    def setup(c, ops=ops):
        c.op('*', 'create', f=0, path='a.nc', fmt=1)
        for o in ops: emit_std(c, '*', o, None)
    return ('abuf', setup, m)


def abuf_alphabet(thorough):
    def alphabet(m):
        A = [dict(op='buffer_attach', size=40), dict(op='buffer_attach', size=100), dict(op='buffer_attach', size=0), dict(op='buffer_detach')]
        used = [p['slot'] for p in m.pending]
        slot = next(i for i in range(64) if i not in used)
        for sz in ([1, 3, 8, 40] if thorough else [3, 40, 60]):
            st = (slot * 40) % 200
            A.append(dict(op='ipost', kind='bput', v=0, start=[st], count=[sz], vals=[(slot + k) % 100 + 1 for k in range(sz)], slot=slot, mem='schar'))
        A.append(dict(op='ipost', kind='iput', v=0, start=[210], count=[4], vals=[1, 2, 3, 4], slot=slot, mem='schar'))
        for p in m.pending:
            A.append(dict(op='wait', all=1, slots=[p['slot']]))
            A.append(dict(op='cancel', slots=[p['slot']]))
        if len(m.pending) >= 2:
            A.append(dict(op='wait', all=1, slots=[m.pending[-1]['slot'], m.pending[0]['slot']]))
        A += [dict(op='wait', all=1), dict(op='cancel')]
        return A
    return alphabet


def bump_usage(hist, upto_op=None):
    """what a tail-only (bump) allocator would report: bytes up to the last still-pending bput, in posting order"""
    entries = []      # [slot, size, used]
    for o in hist:
        if o['op'] == 'buffer_detach' or o['op'] == 'buffer_attach': pass
        if o['op'] == 'ipost' and o['kind'] == 'bput': entries.append([o['slot'], len(o['vals']), True])
        elif o['op'] in ('wait', 'cancel'):
            sl = o.get('slots')
            for e in entries:
                if sl is None or e[0] in sl: e[2] = False
            while entries and not entries[-1][2]: entries.pop()
    return sum(e[1] for e in entries)


def classify(node, o, r, lo, sw1, rc, newm):
    """is the discrepancy exactly the one a tail-only reclaiming allocator produces?"""
    hist = node.hist + ([o] if rc == 0 else [])
    bu = bump_usage(hist)
    if sw1 is not None and newm is not None and sw1.get('busage') == bu and bu != newm.busage(): return 'space_reclaimed_only_from_tail'
    if sw1 is None and o['op'] == 'ipost' and o.get('kind') == 'bput' and rc == D.NC_EINSUFFBUF and node.model.abuf is not None:
        if node.model.abuf - bump_usage(node.hist) < len(o['vals']): return 'space_reclaimed_only_from_tail'
    return None


def main(tier=None):
    ck = Check('C13', 'model_checking', tier)
    b = build.build('plain')
    thorough = ck.tier == 'thorough'
    scripts = gen_buffers(thorough) + gen_buffers_mp(thorough) + gen_bput_reuse() + gen_bput_exact()
    results = runner.run_cases(b['vx'], [s.case for s in scripts], batch=2, timeout=600)
    nev = 0
    for s, r in zip(scripts, results):
        nev += s.nevals
        if r.detail.startswith('FLAKE'): ck.flakes += 1
        for sig, detail in s.judge(r): ck.violation(sig, s.case.text()[:30000], s.case.name + ': ' + detail)
        for rank, lines in r.ranks.items():
            for ln, o in lines.items():
                if o.get('op') in ('put', 'rbuf'): ck.outcomes.add((o.get('op'), o.get('rc'), o.get('mod')))
    bfs = HistoryBFS(ck, b['vx'], [abuf_init()], abuf_alphabet(thorough), maxdepth=7 if thorough else 5, reps=1, snap=False, classify=classify)
    bfs.run(deadline=time.time() + (1200 if thorough else 150))
    ck.cov['evaluations'] += nev
    ck.cov['buffer_cases'] = nev
    ck.cov['distinct_nontrivial'] = ck.cov.get('states', 0)
    ck.cov['rule'] = ('(a) request sizes on both sides of the 4096-byte in-place-swap threshold x external types needing swap x same/converting memory type x buffer datatypes {contiguous, vector with gaps, indexed, resized} x padded imap x nc_in_place_swap {auto,enable,disable} '
                      'x exit path {blocking, iput+wait_all, iput+cancel, bput+wait_all, bput+overwrite-after-post, put_varn, iput_varn+wait, put_vard, NC_ERANGE return, NC_EIOMISMATCH return, independent wait}: write buffers byte-identical afterwards, file holds posting-time '
                      'values, reads modify exactly the type-map bytes; the blocking / flexible / iput / varn / record-variable writes again on 2-4 processes with intra-node aggregation (1 or 2 aggregators) and in-place swap auto / forced. (a2) bput A, bput B, only A served or cancelled, bput C, B and C completed in either order or together, five size triples: the file holds the posting-time values of every buffered write. (a3) buffered puts with a memory type narrower / wider than the external type through vara and varn, attached-buffer size exactly the external size of the request and one byte less: accepted / refused, usage, a further put refused, data. (b) BFS over buffer_attach(40|100|0)/bput(sizes)/iput/wait_all and cancel of each pending request and of all/detach; usage, size, pending count and refusal compared with the model after every step.')
    ck.assumptions += ['attached-buffer sizes 40 and 100 bytes, depth bound %d' % bfs.maxdepth]
    runner.cleanup()
    return ck.finish(min_eval=300, min_outcomes=10)


if __name__ == '__main__':
    sys.exit(main(sys.argv[1] if len(sys.argv) > 1 else None))
