"""C08 Collective calls match on all ranks — every assignment of roles to ranks; deadlock decided structurally on the board."""
import itertools, sys, os
sys.path.insert(0, os.path.dirname(os.path.dirname(os.path.abspath(__file__))))
from engine import build, runner
from engine.common import Check
from engine.script import Script, first_frame
from engine.model import data as D

ROLES = ['valid', 'zerolen', 'EINVALCOORDS', 'EEDGE', 'ESTRIDE', 'ENEGATIVECNT', 'ENOTVAR', 'ECHAR', 'EIOMISMATCH']
ROLE_RC = dict(valid=0, zerolen=0, EINVALCOORDS=D.NC_EINVALCOORDS, EEDGE=D.NC_EEDGE, ESTRIDE=D.NC_ESTRIDE, ENEGATIVECNT=D.NC_ENEGATIVECNT,
               ENOTVAR=D.NC_ENOTVAR, ECHAR=D.NC_ECHAR, EIOMISMATCH=D.NC_EIOMISMATCH)
FORMS = ['var1', 'vara', 'vars', 'varm', 'varn', 'vard']
NX = 3


def dims_vars(np):
    dims = [('t', None), ('r', np), ('x', NX)]
    vars_ = [('fix', D.NC_INT, [1, 2]), ('rec', D.NC_INT, [0, 2]), ('rec2', D.NC_SHORT, [0]), ('sc', D.NC_INT, [])]
    return dims, vars_


def applicable(form, role, flex):
    if role == 'ESTRIDE' and form not in ('vars', 'varm'): return False
    if role == 'EIOMISMATCH' and not flex: return False
    if role == 'ECHAR' and flex: return False       # text memory type through the typed API
    if form == 'var1' and role in ('zerolen', 'EEDGE', 'ENEGATIVECNT', 'ESTRIDE'): return False
    if form == 'vard' and role not in ('valid', 'ENOTVAR', 'EIOMISMATCH'): return False
    if form == 'var1' and role == 'EIOMISMATCH': return True
    return True


def region(form, role, rank, vkind):
    """(kwargs for Script.put/get, expect index region valid?)"""
    st = [rank, 0]; ct = [1, NX] if form != 'var1' else [1, 1]
    sd = None
    if role == 'zerolen': ct = [0, NX]
    if role == 'EINVALCOORDS': st = [rank, NX + 2]
    if role == 'EEDGE': ct = [1, NX + 1]
    if role == 'ENEGATIVECNT': ct = [1, -1]
    if form in ('vars', 'varm'): sd = [1, 1]
    if role == 'ESTRIDE': sd = [1, 0]
    return st, ct, sd


def add_call(s, isput, rank, v, form, role, flex, tag):
    """emit one collective put/get for `rank` playing `role`; returns True if the model was updated with valid data"""
    st, ct, sd = region(form, role, rank, v)
    kw = dict(f=0, form=form, v=(99 if role == 'ENOTVAR' else v), coll=1, mem='text' if role == 'ECHAR' else 'int')
    if flex or form == 'vard': kw['api'] = 'flex'
    nd = 2
    n = 1
    for c in ct: n *= max(c, 0)
    if form == 'var1': kw['s'] = st; n = 1
    elif form == 'varn': kw.update(n=1, nd=nd, s0=st, c0=ct)
    elif form == 'vard': kw.update(s=st, c=ct)
    else:
        kw['s'] = st; kw['c'] = ct
        if sd is not None: kw['st'] = sd
        if form == 'varm': kw['imap'] = [NX, 1]
    if role == 'EIOMISMATCH': kw['bufcount'] = max(n, 1) + 1; kw['nel'] = max(n, 1) + 1
    if role in ('EEDGE', 'ENEGATIVECNT', 'ESTRIDE'): kw['nel'] = NX
    good = role in ('valid', 'zerolen')
    exp_rc = ROLE_RC[role]
    if isput:
        idx = D.region_indices(s.model.vars[v].shape, st, ct if form != 'var1' else [1, 1], sd) if good else []
        vals = [D.gen(tag, k, 65539) for k in range(len(idx))]
        kw['tag'] = tag; kw['scale'] = 65539
        ln = s.op(rank, 'put', expect_rc=None, **kw)
        if good: s.model.put_idx(v, idx, vals)
    else:
        ln = s.op(rank, 'get', expect_rc=None, **kw)
        if good and n > 0:
            exp = [s.model.vars[v].vals.get(i) for i in D.region_indices(s.model.vars[v].shape, st, ct if form != 'var1' else [1, 1], sd)]
            def chkv(o, rk, ln=ln, exp=exp):
                if o.rc == 0 and D.cmp_lists(exp, o.vals()) >= 0:
                    return (('value', 'get_all', 'valid rank'), 'line %d rank %d: read %s, model %s' % (ln, rk, o.vals(), exp))
            s.add_expect(ln, chkv)

    def chk(o, rk, ln=ln, exp_rc=exp_rc, role=role, form=form):
        acc = {exp_rc}
        if role == 'ENEGATIVECNT': acc |= {D.NC_EEDGE}
        if role == 'EIOMISMATCH': acc |= {D.NC_EIOMISMATCH}
        if o.rc not in acc:
            return (('rc', ('put_' if isput else 'get_') + form + '_all', role), 'line %d rank %d (%s): rc=%d, expected %s' % (ln, rk, role, o.rc, sorted(acc)))
    s.add_expect(ln, chk)
    s.nevals += 1
    return ln


def gen_getput(np, roles, forms, vkinds=(0, 1), flexes=(False, True), safe=(0,), hints=None, tagname=''):
    cases = []
    dims, vars_ = dims_vars(np)
    for form in forms:
        for flex in flexes:
            for v in vkinds:
                for isput in (True, False):
                    assigns = [a for a in itertools.product(roles, repeat=np) if all(applicable(form, r, flex or form == 'vard') for r in a)]
                    # at least one rank is valid (somebody's data must get through) and not everybody
                    assigns = [a for a in assigns if 'valid' in a and any(r != 'valid' for r in a)]
                    for sm in safe:
                        for a in assigns:
                            env = {'PNETCDF_SAFE_MODE': str(sm)}
                            s = Script('GP%s-np%d-%s-%s-v%d-%s-%s-sm%d' % (tagname, np, form, 'flex' if flex else 'typed', v, 'put' if isput else 'get', '.'.join(a), sm), np, 1, dims, vars_, env=env, hints=hints)
                            s.meta = dict(api=('put_' if isput else 'get_') + form + '_all', roles=a, v=v)
                            # background so that reads have something to compare with
                            s.put('*', 0, form='var', coll=1, tag=50)
                            s.put('*', 1, [0, 0], [np, NX], None, form='vara', coll=1, tag=51)
                            if sm:
                                # safe mode: the documented behaviour is the *same* error on all ranks; data is not transferred
                                n0 = len(s.expect)
                                lns = [add_call(s, isput, r, v, form, a[r], flex, 3 + r) for r in range(np)]
                                del s.expect[n0:]
                                s.meta['lines'] = lns
                            else:
                                for r in range(np): add_call(s, isput, r, v, form, a[r], flex, 3 + r)
                            s.op('*', 'sync'); s.op('*', 'barrier')
                            if not sm:
                                s.get_all('*', 0, coll=1); s.get_all('*', 1, coll=1)
                            ln = s.op('*', 'inq_unlimlen', f=0)
                            s.finish(reopen=False, decode=not sm)
                            cases.append(s)
    return cases


def gen_waitall(np):
    """different numbers of pending requests per rank, incl. none, incl. a rank whose only request was rejected at posting time"""
    cases = []
    dims, vars_ = dims_vars(np)
    for v, grow in ((0, False), (1, False), (1, True)):
        # grow: the requests append new records, so the record count every process (also one without requests) holds afterwards is observable
        for counts in itertools.product((0, 1, 2), repeat=np):
            if len(set(counts)) == 1 and counts[0] != 0: continue
            for kind in ('ids', 'ALL'):
                s = Script('WA-np%d-v%d%s-%s-%s' % (np, v, 'g' if grow else '', ''.join(map(str, counts)), kind), np, 1, dims, vars_)
                s.meta = dict(api='wait_all', roles=counts, v=v)
                s.put('*', 0, form='var', coll=1, tag=50)
                s.put('*', 1, [0, 0], [np, NX], None, form='vara', coll=1, tag=51)
                for r in range(np):
                    slots = []
                    for k in range(counts[r]):
                        st = [np + r if grow else r, k]; ct = [1, 1]
                        ln, idx, vals = s.put(r, v, st, ct, None, form='vara', nb='i', req=r * 4 + k, tag=7 + r * 3 + k, update=False)
                        s.model.put_idx(v, idx, vals)
                        slots.append('q%d' % (r * 4 + k))
                    if kind == 'ALL': s.op(r, 'wait', f=0, kind='ALL', all=1)
                    else: s.op(r, 'wait', f=0, ids=slots if slots else None, all=1, num=len(slots))
                if grow:
                    ln = s.op('*', 'inq_unlimlen', f=0); nr = s.model.numrecs
                    s.add_expect(ln, lambda o, rk, ln=ln, nr=nr: None if int(o.get('len', -1)) == nr else (('numrecs', 'wait_all', 'process with fewer requests'), 'line %d rank %d holds %s records after wait_all, the processes wrote up to %d' % (ln, rk, o.get('len'), nr)))
                    s.get_all('*', 1, coll=1, what='all records right after wait_all')
                s.op('*', 'sync'); s.op('*', 'barrier')
                s.get_all('*', 0, coll=1); s.get_all('*', 1, coll=1)
                s.finish(reopen=grow)
                cases.append(s)
    return cases


def gen_fill_var_rec(np):
    cases = []
    dims, vars_ = dims_vars(np)
    for recs in itertools.product((0, 1), repeat=np):
        pass
    s = Script('FVR-np%d' % np, np, 1, dims, vars_, define=False)
    s.meta = dict(api='fill_var_rec', roles=('valid',) * np, v=1)
    s.op('*', 'create', f=0, path='a.nc', fmt=1)
    s.op('*', 'def_dim', name='t', unlim=1); s.op('*', 'def_dim', name='r', len=np); s.op('*', 'def_dim', name='x', len=NX)
    s.op('*', 'def_var', name='fix', xtype='int', dims=[1, 2]); s.op('*', 'def_var', name='rec', xtype='int', dims=[0, 2])
    s.op('*', 'def_var_fill', f=0, v=1, nofill=0)
    s.op('*', 'enddef')
    s.op('*', 'fill_var_rec', f=0, v=1, rec=0)
    s.op('*', 'fill_var_rec', f=0, v=1, rec=2)
    ln = s.op('*', 'inq_unlimlen', f=0)
    s.add_expect(ln, lambda o, rk: None if o.get('len') == '3' else (('numrecs', 'fill_var_rec', 'all ranks'), 'rank %d sees %s records, expected 3' % (rk, o.get('len'))))
    s.op('*', 'close', f=0)
    cases.append(s)
    return cases


META_OPS = [
    # (name, op, kwargs for (rank, is this the rank whose argument differs))
    ('def_dim_len', 'def_dim', lambda r, d: dict(name='d', len=3 + d)),
    ('def_dim_name', 'def_dim', lambda r, d: dict(name='d%d' % d, len=3)),
    ('def_var_type', 'def_var', lambda r, d: dict(name='v', xtype='int' if not d else 'float', dims=[1])),
    ('def_var_dims', 'def_var', lambda r, d: dict(name='v', xtype='int', dims=[1] if not d else [2])),
    ('put_att_val', 'put_att', lambda r, d: dict(v=-1, name='a', xtype='int', n=1, vals=[5 + d])),
    ('put_att_len', 'put_att', lambda r, d: dict(v=-1, name='a', xtype='int', n=1 + d, vals=[5] * (1 + d))),
    ('put_att_len0', 'put_att', lambda r, d: dict(v=-1, name='a', xtype='int', n=0 if d else 2, vals=None if d else [5, 6])),      # zero length on one rank
    ('put_att_len0rest', 'put_att', lambda r, d: dict(v=-1, name='a', xtype='int', n=2 if d else 0, vals=[5, 6] if d else None)),  # zero length on all but one
    ('put_att_type', 'put_att', lambda r, d: dict(v=-1, name='a', xtype='short' if d else 'int', mem='int', n=1, vals=[5])),       # same API (memory type), other external type
    ('rename_var', 'rename_var', lambda r, d: dict(v=0, name='n%d' % d)),
    ('set_fill', 'set_fill', lambda r, d: dict(mode=int(d))),
    ('_enddef', '_enddef', lambda r, d: dict(h_minfree=4 * d)),
]


def gen_safe_meta(np):
    """safe mode: arguments of collective metadata calls differ on exactly one rank (the root or the last one) -> same error code
    on every rank, and the next, consistent, call works"""
    cases = []
    dims, vars_ = dims_vars(np)
    for name, op, kwf in META_OPS:
        for who in (np - 1, 0):
            s = Script('SM-np%d-%s-r%d' % (np, name, who), np, 1, dims, vars_, env={'PNETCDF_SAFE_MODE': '1'}, define=False)
            s.meta = dict(api=op, roles=('differ',), v=-1)
            s.op('*', 'create', f=0, path='a.nc', fmt=1)
            s.op('*', 'def_dim', name='t', unlim=1); s.op('*', 'def_dim', name='r', len=np); s.op('*', 'def_dim', name='x', len=NX)
            s.op('*', 'def_var', name='fix', xtype='int', dims=[1, 2])
            lns = []
            for r in range(np):
                lns.append(s.op(r, op, expect_rc=None, f=0, **{k: v for k, v in kwf(r, int(r == who)).items() if v is not None}))
            s.meta['lines'] = lns
            if op != '_enddef':
                # a consistent call right afterwards must not be disturbed by whatever the disagreement left behind
                s.op('*', 'put_att', f=0, v=-1, name='after', xtype='int', n=2, vals=[1, 2])
                s.op('*', 'def_dim', f=0, name='dafter', len=4)
            s.op('*', 'close', f=0, expect_rc=None)
            cases.append(s)
    return cases


def judge_safe(s, r, ck):
    """all ranks must report the same, non-zero code"""
    if r.status != 'ok': return
    lns = s.meta.get('lines')
    if not lns: return
    rcs = [r.rc(k, lns[k]) for k in range(s.np)]
    if len(set(rcs)) != 1 or rcs[0] == 0:
        ck.violation(('safe_mode_rc', s.meta['api'], 'argument differs on one rank'), s.case.text(), s.case.name + ': return codes per rank %s (expected one common error code)' % rcs)


def main(tier=None):
    ck = Check('C08', 'exploration', tier)
    b = build.build('plain')
    thorough = ck.tier == 'thorough'
    scripts = []
    if thorough:
        scripts += gen_getput(2, ROLES, FORMS)
        scripts += gen_getput(3, ['valid', 'zerolen', 'EINVALCOORDS', 'ENOTVAR', 'EIOMISMATCH'], ['vara', 'vars', 'varn'])
        scripts += gen_getput(2, ROLES, ['vara', 'varm', 'varn'], hints='nc_num_aggrs_per_node=1', tagname='-ina')
        scripts += gen_getput(2, ['valid', 'EINVALCOORDS', 'ENOTVAR', 'EEDGE'], ['vara', 'varn'], safe=(1,), tagname='-safe')
        for np in (2, 3): scripts += gen_waitall(np) + gen_fill_var_rec(np) + gen_safe_meta(np)
    else:
        scripts += gen_getput(2, ROLES, ['var1', 'vara', 'vars', 'varn', 'vard'], flexes=(False,))
        scripts += gen_getput(2, ['valid', 'zerolen', 'EIOMISMATCH', 'ENOTVAR'], ['vara', 'varm'], flexes=(True,))
        scripts += gen_getput(2, ['valid', 'EINVALCOORDS', 'ENOTVAR'], ['vara'], flexes=(False,), hints='nc_num_aggrs_per_node=1', tagname='-ina')
        scripts += gen_waitall(2) + gen_fill_var_rec(2) + gen_safe_meta(2)
    results = runner.run_cases(b['vx'], [s.case for s in scripts], batch=60)
    fam = set()
    for s, r in zip(scripts, results):
        ck.cov['evaluations'] += 1
        if r.detail.startswith('FLAKE'): ck.flakes += 1
        meta = getattr(s, 'meta', {})
        if r.status != 'ok':
            roles = meta.get('roles', ())
            bad = sorted(set(x for x in roles if x not in ('valid',)), key=str)
            vk = {0: 'fixed', 1: 'record', -1: '-'}.get(meta.get('v'), '?')
            api = meta.get('api', '?')
            famn = 'collective put' if api.startswith('put_') else ('collective get' if api.startswith('get_') else api)
            rdesc = 'ENOTVAR on a subset of ranks' if 'ENOTVAR' in bad else '+'.join(map(str, bad))
            ck.violation((r.status, famn, '%s var; roles %s; %s' % (vk, rdesc, first_frame(r.detail))), s.case.text(), s.case.name + ': ' + r.detail[:900])
            ck.outcomes.add((meta.get('api'), r.status))
            continue
        if meta.get('lines'): judge_safe(s, r, ck)
        for sig, detail in s.judge(r): ck.violation(sig, s.case.text(), s.case.name + ': ' + detail)
        fam.add((meta.get('api'), tuple(meta.get('roles', ()))))
        for rank, lines in r.ranks.items():
            for ln, o in lines.items():
                if o.get('op') in ('put', 'get', 'wait'): ck.outcomes.add((o.get('op'), o.get('rc')))
    ck.cov['distinct_nontrivial'] = len(set(s.case.name for s in scripts))
    ck.cov['rule'] = ('every assignment of a role {valid, zero-length, NC_EINVALCOORDS, NC_EEDGE, NC_ESTRIDE, NC_ENEGATIVECNT, NC_ENOTVAR, NC_ECHAR, NC_EIOMISMATCH} to every rank (np=2, thorough also 3) '
                      'for put/get_{var1,vara,vars,varm,varn,vard}_all typed and flexible on a fixed and a record variable, with/without intra-node aggregation and safe mode; wait_all with every '
                      'combination of 0-2 pending requests per rank; fill_var_rec; safe-mode metadata disagreement. Collective sequences are matched structurally on the board (one execution decides all timings).')
    ck.cov['api_role_families'] = len(fam)
    ck.sample(scripts[0].case.text()[:1500]); ck.sample(scripts[-1].case.text()[:1500])
    ck.assumptions += ['np <= 3', 'collectives internal to Open MPI/OMPIO are not inspected', 'a deadlock verdict involving blocked point-to-point uses a 1.5 s quiescence timer, all other verdicts are structural']
    runner.cleanup()
    return ck.finish(min_eval=100, min_outcomes=4)


if __name__ == '__main__':
    sys.exit(main(sys.argv[1] if len(sys.argv) > 1 else None))
