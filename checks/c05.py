"""C05 Record count coherent across ranks, memory and file — history BFS + exhaustive interleavings of independent segments."""
import itertools, sys, os, time, copy, json
sys.path.insert(0, os.path.dirname(os.path.dirname(os.path.abspath(__file__))))
from engine import build, runner, sched
from engine.common import Check
from engine.runner import Case
from engine.bfs import generic_bfs, desc
from engine.script import first_frame
from engine.model import data as D

RECS = [None, 0, 1, 3]


class M:
    """reference: synced record count + per-rank in-memory view"""
    def __init__(self, np):
        self.np = np; self.mode = 'COLL'; self.synced = 0; self.local = [0] * np; self.nvars = 2
        self.data = {}          # (rec, k) -> value of variable 0
        self.tag = 0
    def clone(self): return copy.deepcopy(self)
    def canon(self): return json.dumps([self.mode, self.synced, self.local, self.nvars, sorted((list(k), v) for k, v in self.data.items())])
    def gmax(self): return max([self.synced] + self.local)
    def sync(self):
        g = self.gmax(); self.synced = g; self.local = [g] * self.np


def alphabet_for(np, small=False):
    recs = [None, 0, 2] if small else RECS
    def alphabet(m):
        A = []
        if m.mode == 'COLL':
            combos = list(itertools.product(recs, repeat=np))
            for rs in combos: A.append(dict(op='CP', recs=list(rs)))
            for rs in combos[::3]: A.append(dict(op='IW', recs=list(rs)))
            for rs in [c for c in combos if all(x is not None for x in c)][:4]: A.append(dict(op='CD', recs=list(rs)))
            for rs in [c for c in combos if any(x is not None for x in c)][1::4]: A.append(dict(op='CE', recs=list(rs)))     # out-of-range value: NC_ERANGE, the record still exists
            for k in range(np): A.append(dict(op='IS', k=k, rec=3 - k % 2))      # two pending writes of one process, completed one by one, later-posted first
            for r in (0, 1, 3): A.append(dict(op='FV', rec=r))
            A.append(dict(op='BI'))
        else:
            for k in range(np):
                for r in (0, 1, 3):
                    A.append(dict(op='IP', k=k, rec=r)); A.append(dict(op='IQ', k=k, rec=r))
                A.append(dict(op='IE', k=k, rec=3 - k % 2))
            A.append(dict(op='EI'))
        A += [dict(op='SY'), dict(op='SN'), dict(op='RD'), dict(op='CO')]
        if m.nvars == 2: A.append(dict(op='RA'))
        return A
    return alphabet


def setup(c, np, hints=None):
    c.op('*', 'create', f=0, path='a.nc', fmt=1, hints=hints)
    c.op('*', 'def_dim', name='t', unlim=1); c.op('*', 'def_dim', name='x', len=np)
    c.op('*', 'def_var', name='ra', xtype='int', dims=[0, 1]); c.op('*', 'def_var', name='rb', xtype='short', dims=[0])
    c.op('*', 'def_var_fill', f=0, v=0, nofill=0)
    c.op('*', 'enddef')


def emit_op(c, o, m, np):
    """emit one model op; mutates a *copy* of the model kept by caller through apply()"""
    k = o['op']
    if k in ('CP', 'CD'):
        for r in range(np):
            rec = o['recs'][r]
            if rec is None: c.op(r, 'put', f=0, form='vara', v=0, s=[0, r], c=[0, 1], coll=1, mem='int')
            else:
                val = 1000 * (m.tag + 1) + 10 * rec + r
                c.op(r, 'put', f=0, form='vard' if k == 'CD' else 'vara', v=0, s=[rec, r], c=[1, 1], coll=1, mem='int', vals=[val], api='flex' if k == 'CD' else None)
    elif k == 'CE':
        for r in range(np):
            rec = o['recs'][r]
            if rec is None: c.op(r, 'put', f=0, form='vara', v=0, s=[0, r], c=[0, 1], coll=1, mem='int')
            else: c.op(r, 'put', f=0, form='vara', v=0, s=[rec, r], c=[1, 1], coll=1, mem='double', vals='1e30')
    elif k == 'IE':
        c.op(o['k'], 'put', f=0, form='vara', v=0, s=[o['rec'], o['k']], c=[1, 1], coll=0, mem='double', vals='1e30')
    elif k == 'IW':
        for r in range(np):
            rec = o['recs'][r]
            if rec is None: c.op(r, 'wait', f=0, all=1, num=0)
            else:
                val = 1000 * (m.tag + 1) + 10 * rec + r
                c.op(r, 'put', f=0, form='vara', v=0, s=[rec, r], c=[1, 1], mem='int', vals=[val], nb='i', req=r)
                c.op(r, 'wait', f=0, all=1, ids=['q%d' % r])
    elif k == 'IS':
        kk = o['k']; val = 1000 * (m.tag + 1) + kk
        c.op(kk, 'put', f=0, form='vara', v=0, s=[0, kk], c=[1, 1], mem='int', vals=[val], nb='i', req=20 + kk)
        c.op(kk, 'put', f=0, form='vara', v=0, s=[o['rec'], kk], c=[1, 1], mem='int', vals=[val + 10 * o['rec']], nb='i', req=40 + kk)
        for slot in (40 + kk, 20 + kk):
            for r in range(np):
                if r == kk: c.op(r, 'wait', f=0, all=1, ids=['q%d' % slot])
                else: c.op(r, 'wait', f=0, all=1, num=0)
    elif k == 'FV': c.op('*', 'fill_var_rec', f=0, v=0, rec=o['rec'])
    elif k == 'BI': c.op('*', 'begin_indep', f=0)
    elif k == 'EI': c.op('*', 'end_indep', f=0)
    elif k == 'SY': c.op('*', 'sync', f=0)
    elif k == 'SN': c.op('*', 'sync_numrecs', f=0)
    elif k == 'IP':
        val = 1000 * (m.tag + 1) + 10 * o['rec'] + o['k']
        c.op(o['k'], 'put', f=0, form='vara', v=0, s=[o['rec'], o['k']], c=[1, 1], coll=0, mem='int', vals=[val])
    elif k == 'IQ':
        val = 1000 * (m.tag + 1) + 10 * o['rec'] + o['k']
        c.op(o['k'], 'put', f=0, form='vara', v=0, s=[o['rec'], o['k']], c=[1, 1], mem='int', vals=[val], nb='i', req=o['k'])
        c.op(o['k'], 'wait', f=0, all=0, ids=['q%d' % o['k']])
    elif k == 'RD': c.op('*', 'redef', f=0); c.op('*', 'enddef', f=0)
    elif k == 'RA': c.op('*', 'redef', f=0); c.op('*', 'def_var', f=0, name='rc', xtype='short', dims=[0]); c.op('*', 'enddef', f=0)
    elif k == 'CO': c.op('*', 'close', f=0); c.op('*', 'open', f=0, path='a.nc', write=1)


FILL_INT = -2147483647


def apply(m, o):
    m = m.clone(); k = o['op']; np = m.np
    def wr(rec, r): m.data[(rec, r)] = 1000 * (m.tag + 1) + 10 * rec + r
    if k in ('CP', 'CD', 'IW', 'CE'):
        for r in range(np):
            if o['recs'][r] is not None:
                wr(o['recs'][r], r); m.local[r] = max(m.local[r], o['recs'][r] + 1)
                if k == 'CE': m.data[(o['recs'][r], r)] = FILL_INT
        m.sync()
    elif k == 'IS':
        kk = o['k']; val = 1000 * (m.tag + 1) + kk
        m.data[(0, kk)] = val; m.data[(o['rec'], kk)] = val + 10 * o['rec']
        m.local[kk] = max(m.local[kk], o['rec'] + 1); m.sync()
    elif k == 'IE':
        m.data[(o['rec'], o['k'])] = FILL_INT; m.local[o['k']] = max(m.local[o['k']], o['rec'] + 1)
    elif k == 'FV':
        for r in range(np): m.data[(o['rec'], r)] = FILL_INT
        m.local = [max(x, o['rec'] + 1) for x in m.local]; m.sync()
    elif k == 'BI': m.mode = 'INDEP'
    elif k == 'EI': m.mode = 'COLL'; m.sync()
    elif k in ('SY', 'SN'): m.sync()
    elif k in ('IP', 'IQ'):
        wr(o['rec'], o['k']); m.local[o['k']] = max(m.local[o['k']], o['rec'] + 1)
    elif k in ('RD', 'RA'):
        m.sync(); m.mode = 'COLL'
        if k == 'RA': m.nvars = 3
    elif k == 'CO': m.sync(); m.mode = 'COLL'
    m.tag += 1
    return m


def observe(c, m_after, np):
    """emit observation ops; returns ctx"""
    ctx = {}
    ctx['len'] = c.op('*', 'inq_unlimlen', f=0)
    c.op('*', 'barrier'); ctx['disk'] = c.op(0, 'disk_numrecs', path='a.nc'); c.op('*', 'barrier')
    g = m_after.gmax()
    ctx['reads'] = []
    if m_after.mode == 'COLL':
        if m_after.synced > 0:
            ln = c.op('*', 'get', f=0, form='vara', v=0, s=[m_after.synced - 1, 0], c=[1, np], coll=1, mem='int')
            ctx['reads'].append((ln, None, [m_after.data.get((m_after.synced - 1, r)) for r in range(np)]))
    else:
        for r in range(np):
            mine = [rec for (rec, rr) in m_after.data if rr == r and rec < m_after.local[r]]
            if mine:
                rec = max(mine)
                ln = c.op(r, 'get', f=0, form='vara', v=0, s=[rec, r], c=[1, 1], coll=0, mem='int')
                ctx['reads'].append((ln, r, [m_after.data.get((rec, r))]))
    return ctx


def make_emit(np, hints=None):
    def emit(c, iname, hist, o, m0):
        setup(c, np, hints)
        m = M(np)
        for h in hist:
            emit_op(c, h, m, np); m = apply(m, h)
        ctx = dict(pre=observe(c, m, np))
        emit_op(c, o, m, np)
        m2 = apply(m, o)
        ctx['post'] = observe(c, m2, np)
        ctx['m2'] = m2; ctx['m1'] = m
        return ctx
    return emit


def check_obs(m, r, ob, np, when):
    """the invariant of the property, evaluated on one observation point"""
    out = []
    lens = [int(r.r(k, ob['len']).get('len', -1)) for k in range(np)]
    disk = int(r.r(0, ob['disk']).get('numrecs', -1))
    if m.mode == 'COLL':
        if len(set(lens)) != 1: out.append((('numrecs_differs_across_ranks', when, 'collective mode'), 'ranks report %s' % lens))
        elif lens[0] != m.synced: out.append((('numrecs_value', when, 'collective mode'), 'ranks report %s, 1 + highest record written is %d' % (lens, m.synced)))
        elif disk != m.synced: out.append((('numrecs_in_header', when, 'collective mode'), 'file header holds %d, processes report %d' % (disk, m.synced)))
    else:
        g = m.gmax()
        for k in range(np):
            if lens[k] < m.local[k] or lens[k] > g:
                out.append((('numrecs_value', when, 'independent mode'), 'rank %d reports %d, needs at least %d (own writes) and at most %d' % (k, lens[k], m.local[k], g)))
        if disk > g: out.append((('numrecs_in_header', when, 'independent mode'), 'file header holds %d > highest record written %d' % (disk, g)))
    for ln, rank, exp in ob['reads']:
        for k in ([rank] if rank is not None else range(np)):
            o = r.r(k, ln)
            if o is None: continue
            if o.rc != 0: out.append((('highest_record_unreadable', when, m.mode), 'rank %d: reading the highest written record returned %d' % (k, o.rc)))
            elif D.cmp_lists(exp, o.vals()) >= 0: out.append((('value', when, m.mode), 'rank %d read %s, written %s' % (k, o.vals(), exp)))
    return out


def make_step(np):
    def step(m, o, r, ctx):
        v = check_obs(ctx['m1'], r, ctx['pre'], np, 'before ' + o['op'])
        if v: return None, [((('replay_divergence', 'harness', 'state before op')), 'pre-state: ' + v[0][1])]
        v = check_obs(ctx['m2'], r, ctx['post'], np, o['op'])
        # never decreases
        pre = [int(r.r(k, ctx['pre']['len']).get('len', -1)) for k in range(np)]
        post = [int(r.r(k, ctx['post']['len']).get('len', -1)) for k in range(np)]
        if any(b < a for a, b in zip(pre, post)): v.append((('numrecs_decreased', o['op'], ctx['m2'].mode), 'per-rank record count went from %s to %s' % (pre, post)))
        # every API call of the op must succeed
        for k in r.ranks:
            for ln, x in r.ranks[k].items():
                if x.get('op') == 'put' and x.rc == D.NC_ERANGE and 'vals=1e30' in r.case.ops[ln - 1]: continue      # the CE / IE letters (also when replayed as history)
                if x.get('op') in ('put', 'wait', 'fill_var_rec', 'sync', 'sync_numrecs', 'redef', 'enddef', 'begin_indep', 'end_indep', 'close', 'open') and x.rc != 0:
                    v.append((('rc', x.get('op'), o['op']), 'rank %d line %d %s returned %d' % (k, ln, x.get('op'), x.rc))); break
        return ctx['m2'], v
    return step


# ------------------------------------------------------------------ schedule exploration of independent segments
def seg_case(np, plan, prefix, variant):
    """plan: per rank list of record indices written independently (no barriers in between) then a sync call"""
    c = Case('SEG-np%d-%s-%s' % (np, variant, '_'.join(''.join(map(str, p)) for p in plan)), np, opts=dict(prefix=prefix) if prefix else None)
    setup(c, np)
    c.op('*', 'begin_indep', f=0)
    for k in range(np):
        for j, rec in enumerate(plan[k]):
            c.op(k, 'put', f=0, form='vara', v=0, s=[rec, k], c=[1, 1], coll=0, mem='int', vals=[100 * rec + k])
    ctx = {}
    if variant == 'end_indep': c.op('*', 'end_indep', f=0)
    elif variant == 'sync': c.op('*', 'sync', f=0)
    elif variant == 'sync_numrecs': c.op('*', 'sync_numrecs', f=0)
    elif variant == 'redef': c.op('*', 'redef', f=0); c.op('*', 'enddef', f=0)
    elif variant == 'close': c.op('*', 'close', f=0); c.op('*', 'open', f=0, path='a.nc', write=0)
    ctx['len'] = c.op('*', 'inq_unlimlen', f=0)
    c.op('*', 'barrier'); ctx['disk'] = c.op(0, 'disk_numrecs', path='a.nc'); c.op('*', 'barrier')
    if variant in ('sync', 'sync_numrecs'): c.op('*', 'end_indep', f=0)
    top = max([r for p in plan for r in p] + [-1]) + 1
    ctx['top'] = top
    if top > 0:
        ctx['get'] = c.op('*', 'get', f=0, form='vara', v=0, s=[top - 1, 0], c=[1, np], coll=1, mem='int')
        ctx['exp'] = [100 * (top - 1) + k if (top - 1) in plan[k] else None for k in range(np)]
    return c, ctx


def run_segments(ck, vx, np, plans, variants, bound, reduce, max_runs):
    total = dict(schedules=0, alternatives_seen=0, pruned_commuting=0, max_steps=0, capped=False)
    for plan in plans:
        for variant in variants:
            def run_batch(prefixes, plan=plan, variant=variant):
                built = [seg_case(np, plan, p, variant) for p in prefixes]
                res = runner.run_cases(vx, [b[0] for b in built], batch=64)
                out = []
                for (c, ctx), r in zip(built, res):
                    if r.status != 'ok':
                        out.append(([], ((r.status, 'independent segment', first_frame(r.detail)), c.text(), r.detail[:600]), None)); continue
                    steps = sched.parse_sched(r.end.get(0, {}))
                    lens = [int(r.r(k, ctx['len']).get('len', -1)) for k in range(np)]
                    disk = int(r.r(0, ctx['disk']).get('numrecs', -1))
                    verdict = None
                    if len(set(lens)) != 1 or lens[0] != ctx['top'] or disk != ctx['top']:
                        verdict = (('numrecs_after_sync_call', variant, 'schedule dependent' if steps else 'any schedule'), c.text(),
                                   'plan %s, after %s: ranks report %s, header holds %d, 1 + highest record written = %d; schedule %s' % (plan, variant, lens, disk, ctx['top'], [s['choice'] for s in steps]))
                    elif ctx['top'] > 0:
                        for k in range(np):
                            g = r.r(k, ctx['get'])
                            if g.rc != 0 or D.cmp_lists(ctx['exp'], g.vals()) >= 0:
                                verdict = (('value', variant, 'schedule'), c.text(), 'plan %s: rank %d reads %s rc=%d, expected %s' % (plan, k, g.vals(), g.rc, ctx['exp'])); break
                    out.append((steps, verdict, (tuple(lens), disk)))
                return out
            stats, fails = sched.explore(run_batch, bound, reduce=reduce, max_runs=max_runs)
            for prefix, v in fails:
                if len(v) == 3 and isinstance(v[1], str) and v[1].startswith('case'): ck.violation(v[0], v[1], 'schedule prefix %s: %s' % (prefix, v[2]))
                else: ck.violation(v[0] if isinstance(v[0], tuple) else ('schedule', 'explorer', str(v[0])), '', 'schedule prefix %s: %s' % (prefix, v))
            for k in ('schedules', 'alternatives_seen', 'pruned_commuting'): total[k] += stats[k]
            total['max_steps'] = max(total['max_steps'], stats['max_steps']); total['capped'] = total['capped'] or stats['capped']
            ck.cov['evaluations'] += stats['schedules']
            ck.outcomes.add(('seg', variant, stats['distinct_outcomes']))
    return total


def main(tier=None):
    ck = Check('C05', 'model_checking', tier)
    b = build.build('plain')
    thorough = ck.tier == 'thorough'
    t0 = time.time()
    st = generic_bfs(ck, b['vx'], [('np2', M(2))], alphabet_for(2, small=not thorough), make_emit(2), make_step(2), maxdepth=4 if thorough else 3, np=2, deadline=t0 + (900 if thorough else 150), batch=80)
    states, trans = st['states'], st['transitions']
    if not thorough:
        s4 = generic_bfs(ck, b['vx'], [('np2-ina', M(2))], alphabet_for(2, small=True), make_emit(2, hints='nc_num_aggrs_per_node=1'), make_step(2), maxdepth=2, np=2, deadline=time.time() + 120, batch=80, name='C05ina')
        states += s4['states']; trans += s4['transitions']
    if thorough:
        s3 = generic_bfs(ck, b['vx'], [('np3', M(3))], alphabet_for(3, small=True), make_emit(3), make_step(3), maxdepth=3, np=3, deadline=time.time() + 600, batch=60)
        s4 = generic_bfs(ck, b['vx'], [('np2-ina', M(2))], alphabet_for(2, small=True), make_emit(2, hints='nc_num_aggrs_per_node=1'), make_step(2), maxdepth=3, np=2, deadline=time.time() + 400, batch=80, name='C05ina')
        states += s3['states'] + s4['states']; trans += s3['transitions'] + s4['transitions']
    # interleavings of independent segments
    variants = ['end_indep', 'sync', 'sync_numrecs', 'redef', 'close']
    if thorough:
        plans2 = [p for p in itertools.product([(), (0,), (2,), (0, 2), (2, 0), (1, 3, 0)], repeat=2) if any(p)]
        seg = run_segments(ck, b['vx'], 2, plans2, variants, bound=2, reduce=False, max_runs=4000)
        seg3 = run_segments(ck, b['vx'], 3, [((0,), (2,), (1,)), ((2, 0), (), (1,))], ['end_indep', 'close'], bound=2, reduce=False, max_runs=3000)
        for k in ('schedules', 'alternatives_seen', 'pruned_commuting'): seg[k] += seg3[k]
    else:
        plans2 = [((0,), (2,)), ((2,), (0,)), ((0, 2), (1,)), ((2, 0), (3,)), ((), (1,))]
        seg = run_segments(ck, b['vx'], 2, plans2, variants[:3] + ['close'], bound=1, reduce=True, max_runs=600)
    ck.cov.update(states=states, transitions=trans + seg['schedules'], traces_validated_against_impl=trans + seg['schedules'], schedule_exploration=seg,
                  max_depth=st['max_depth'], completed_depth=st['completed_depth'], distinct_nontrivial=states,
                  rule='(1) BFS over histories of collective puts (vara, vard) by every assignment of record index / zero-length to each rank, iput+wait_all, fill_var_rec, independent put and iput+wait by one rank, '
                       'begin/end_indep, sync, sync_numrecs, redef(+new record variable), close+reopen; after every step every rank\'s inq_dimlen(unlimited), the numrecs field read from the file and a read of the highest '
                       'record are checked against the invariant. (2) For independent segments every interleaving of the ranks\' independent file accesses within the preemption bound is executed under the board scheduler.')
    ck.assumptions += ['np <= 3, record indices in {0,1,3}', 'cross-rank visibility is only checked after the documented synchronisation calls']
    runner.cleanup()
    return ck.finish(min_eval=200, min_outcomes=3)


if __name__ == '__main__':
    sys.exit(main(sys.argv[1] if len(sys.argv) > 1 else None))
