"""C02 Nonblocking aggregation == blocking execution — history exploration against the blocking reference model."""
import itertools, sys, os
sys.path.insert(0, os.path.dirname(os.path.dirname(os.path.abspath(__file__))))
from engine import build, runner
from engine.common import Check
from engine.script import Script
from engine.model import data as D

DIMS = [('t', None), ('a', 2), ('b', 3), ('e', 5)]
VARS = [('f0', D.NC_INT, [1, 2]), ('f1', D.NC_SHORT, [3]), ('r0', D.NC_INT, [0, 1]), ('r1', D.NC_DOUBLE, [0])]
NREC = 4

# request alphabet: name -> dict(kind, v, form + region, extra)
REQS = {
    'P1': dict(kind='put', v=0, form='vara', start=[0, 0], count=[1, 3]),
    'P2': dict(kind='put', v=0, form='vara', start=[1, 0], count=[1, 3], mem='double'),
    'P3': dict(kind='put', v=2, form='vara', start=[0, 0], count=[1, 2]),
    'P4': dict(kind='put', v=2, form='vara', start=[1, 0], count=[2, 2]),
    'P5': dict(kind='put', v=1, form='vars', start=[0], count=[3], stride=[2]),
    'P6': dict(kind='put', v=3, form='varn', boxes=[([0], [1]), ([1], [2])]),
    'P7': dict(kind='put', v=3, form='vara', start=[3], count=[1], nb='b'),
    'P8': dict(kind='put', v=1, form='vars', start=[1], count=[2], stride=[2], lay='vec:1:2'),
    'P9': dict(kind='put', v=2, form='vara', start=[4, 0], count=[1, 2]),
    'PA': dict(kind='put', v=2, form='vara', start=[0, 0], count=[3, 2]),
    'PB': dict(kind='put', v=3, form='vara', start=[0], count=[2]),
    'PE': dict(kind='put', v=1, form='vara', start=[0], count=[2], nb='b'),                      # buffered writes of several sizes (attached-buffer slots)
    'PF': dict(kind='put', v=0, form='vara', start=[0, 1], count=[2, 1], nb='b'),
    'PG': dict(kind='put', v=3, form='vara', start=[1], count=[1], nb='b', mem='int'),
    'PC': dict(kind='put', v=2, form='varn', boxes=[([0, 0], [2, 1]), ([2, 1], [1, 1])]),      # varn on the first record variable, first box starts at record 0 and spans two records (sorted in front of requests on later variables)
    'PD': dict(kind='put', v=2, form='varn', boxes=[([0, 1], [0, 1]), ([3, 1], [1, 1]), ([3, 0], [1, 1])]),   # varn with a zero-length box
    'G1': dict(kind='get', v=0, form='vara', start=[0, 0], count=[2, 2]),
    'G2': dict(kind='get', v=0, form='vara', start=[0, 1], count=[2, 2]),
    'G3': dict(kind='get', v=2, form='vara', start=[0, 0], count=[2, 2], mem='schar', erange=True),
    'G4': dict(kind='get', v=0, form='varn', boxes=[([0, 0], [2, 1]), ([0, 2], [2, 1])]),
    'G5': dict(kind='get', v=3, form='vara', start=[0], count=[4]),
    'G6': dict(kind='get', v=1, form='vars', start=[0], count=[3], stride=[2], lay='idx'),
    'G7': dict(kind='get', v=0, form='varm', start=[0, 0], count=[2, 3], stride=[1, 1], imap=[1, 2]),
    'G8': dict(kind='get', v=2, form='vara', start=[0, 0], count=[3, 1]),
    'G9': dict(kind='get', v=3, form='vara', start=[1], count=[2]),
}
FILL_SCHAR = -127


def req_indices(model, r):
    var = model.vars[r['v']]
    if r['form'] == 'varn':
        idx = []
        for s, c in r['boxes']: idx += D.region_indices(var.shape, s, c)
        return idx
    return D.region_indices(var.shape, r['start'], r['count'], r.get('stride'))


def compatible(model, names):
    """no element written twice, no element both read and written"""
    w = set(); rd = set()
    for n in names:
        r = REQS[n]
        idx = set((r['v'], i) for i in req_indices(model, r))
        if r['kind'] == 'put':
            if idx & w or idx & rd: return False
            w |= idx
        else:
            if idx & w: return False
            rd |= idx
    return True


class NB(Script):
    def __init__(self, name, np=1, indep=False, opts=None):
        super().__init__(name, np, 2, DIMS, VARS, opts=opts)
        m = self.model
        for v, var in enumerate(m.vars):
            if var.isrec: self.put('*', v, [0] * len(var.shape), [NREC] + var.shape[1:], None, form='vara', coll=1, tag=50 + v)
            else: self.put('*', v, form='var', coll=1, tag=50 + v)
        self.op('*', 'buffer_attach', size=4096)
        self.pending = {}     # slot -> (rank, reqname, idx, vals)
        self.nslot = 0
        self.indep = indep
        self.tagc = 0
        self.trace = []       # model-level trace for state counting
        if indep: self.op('*', 'begin_indep')

    def post(self, name, rank='*'):
        r = REQS[name]; slot = self.nslot; self.nslot += 1
        self.tagc += 1
        kw = {k: r[k] for k in ('start', 'count', 'stride', 'imap', 'boxes', 'mem', 'lay') if k in r}
        nb = r.get('nb', 'i')
        if r['kind'] == 'put':
            ln, idx, vals = self.put(rank, r['v'], form=r['form'], nb=nb, req=slot, tag=self.tagc, update=False, **kw)
        else:
            var = self.model.vars[r['v']]
            idx = req_indices(self.model, r)
            k2 = dict(f=0, form=r['form'], v=r['v'], mem=r.get('mem') or D.XT_MEM[var.xtype], nb='i', req=slot)
            if r['form'] == 'varn':
                k2['n'] = len(r['boxes']); k2['nd'] = len(var.shape)
                for i, (s, c) in enumerate(r['boxes']): k2['s%d' % i] = s; k2['c%d' % i] = c
            else:
                k2['s'] = r['start']; k2['c'] = r['count']
                if 'stride' in r: k2['st'] = r['stride']
                if 'imap' in r: k2['imap'] = r['imap']
            if 'lay' in r: k2['lay'] = r['lay']
            ln = self.op(rank, 'get', **k2); vals = None
        # request id parity: puts even, gets odd
        par = 0 if r['kind'] == 'put' else 1

        def chk(o, rk, par=par, ln=ln, name=name):
            if o.rc == 0 and int(o.get('id', -1)) % 2 != par:
                return (('id_parity', 'post', name), 'line %d: request id %s has wrong parity' % (ln, o.get('id')))
        self.add_expect(ln, chk)
        self.pending[slot] = (rank, name, idx, vals)
        self.trace.append(('post', name))
        return slot

    def _complete(self, slots, cancel=False):
        done = []
        for s in slots:
            if s not in self.pending: continue
            rank, name, idx, vals = self.pending.pop(s)
            r = REQS[name]
            if r['kind'] == 'put' and not cancel: self.model.put_idx(r['v'], idx, vals)
            done.append((s, rank, name, idx))
        return done

    def wait(self, ids, how='wait_all', rank='*', null_at=(), bogus_at=None):
        """ids: list of slots to name (in this order); null_at: positions (in the final array) where NC_REQ_NULL is inserted"""
        arr = ['q%d' % s for s in ids]
        for p in sorted(null_at): arr.insert(p, 'N')
        if bogus_at is not None: arr.insert(bogus_at, 'raw:9999')
        cancel = how == 'cancel'
        allflag = 0 if how == 'wait' else 1
        names = [self.pending[s][1] if s in self.pending else None for s in ids]
        has_erange = any(n and REQS[n].get('erange') for n in names) and not cancel
        expect_rc = 0 if (bogus_at is None and not has_erange) else None
        ln = self.op(rank, 'cancel' if cancel else 'wait', expect_rc=expect_rc, f=0, ids=arr, all=allflag)
        if has_erange and bogus_at is None:
            def chk_rc(o, rk, ln=ln):
                if o.rc not in (0, D.NC_ERANGE): return (('rc', 'wait', 'erange request'), 'line %d: wait rc=%d, expected NC_NOERR or NC_ERANGE' % (ln, o.rc))
            self.add_expect(ln, chk_rc)
        # expected statuses in array order
        exp_st = []
        it = iter(names)
        for a in arr:
            if a == 'N': exp_st.append(0)
            elif a.startswith('raw'): exp_st.append(D.NC_EINVAL_REQUEST)
            else:
                n = next(it)
                exp_st.append(D.NC_ERANGE if (n and REQS[n].get('erange') and not cancel) else 0)
        if bogus_at is None:
            def chk(o, rk, ln=ln, exp_st=exp_st, arr=arr):
                if o.rc not in (0, D.NC_ERANGE): return None
                st = o.ints('st')
                if st != exp_st:
                    cause = 'ids_permuted' if sorted(st) == sorted(exp_st) else 'wrong_status'
                    return (('status_slot', how, cause), 'line %d %s(%s): statuses %s, expected %s (status i must be that of request ids[i])' % (ln, how, ','.join(arr), st, exp_st))
                got = o.get('ids', '').split(',') if o.get('ids') else []
                if any(g != 'N' for g in got):
                    return (('id_not_reset', how, 'completed id'), 'line %d %s: ids after the call %s, all must be NC_REQ_NULL' % (ln, how, got))
            self.add_expect(ln, chk)
            done = self._complete(ids, cancel)
        else:
            done = []     # outcome of a wait with an unknown id is not fixed by the property; see final() for the no-loss oracle
            self.uncertain = True
        self.trace.append((how, tuple(names), tuple(null_at), bogus_at))
        self.after_wait(done, cancel, rank)
        return ln

    def wait_kind(self, kind, how='wait_all', rank='*'):
        ln = self.op(rank, 'cancel' if how == 'cancel' else 'wait', f=0, kind=kind, all=0 if how == 'wait' else 1)
        sel = [s for s, p in self.pending.items() if kind == 'ALL' or (kind == 'PUT') == (REQS[p[1]]['kind'] == 'put')]
        if any(REQS[self.pending[x][1]].get('erange') for x in sel) and how != 'cancel': self.expect.pop()
        done = self._complete(sel, how == 'cancel')
        self.trace.append((how, kind))
        self.after_wait(done, how == 'cancel', rank)

    def after_wait(self, done, cancel, rank):
        coll = 0 if self.indep else 1
        # number of pending requests
        if not getattr(self, 'uncertain', False):
            for rk in range(self.np):
                n = sum(1 for s, p in self.pending.items() if p[0] == '*' or p[0] == rk)
                ln = self.op(rk, 'inq_nreqs', f=0)

                def chk(o, r_, ln=ln, n=n):
                    if int(o.get('n', -1)) != n:
                        return (('nreqs', 'inq_nreqs', 'after wait'), 'line %d: inq_nreqs=%s, model has %d pending (requests not named must stay pending, named ones must be gone)' % (ln, o.get('n'), n))
                self.add_expect(ln, chk)
        for (s, rk, name, idx) in done:
            r = REQS[name]
            ln = self.op(rk, 'rbuf', req=s)
            ovl = any(s2 != s and REQS[n2]['kind'] == 'get' and REQS[n2]['v'] == r['v'] and set(i2) & set(idx) for (s2, _, n2, i2) in done)
            cause = 'overlapping_reads_in_one_wait' if (r['kind'] == 'get' and ovl) else 'read buffer'
            if r['kind'] == 'get' and not cancel:
                var = self.model.vars[r['v']]
                exp = [FILL_SCHAR] * len(idx) if r.get('erange') else [var.vals.get(i) for i in idx]

                def chk(o, r_, ln=ln, exp=exp, name=name, cause=cause):
                    if o.get('guard') != '0': return (('guard', 'iget', name), 'line %d: iget %s wrote outside its buffer type map' % (ln, name))
                    i = D.cmp_lists(exp, o.vals())
                    if i >= 0:
                        return (('value', 'iget', cause), 'line %d: read buffer of %s element %d is %r, blocking model says %r (got %s exp %s)' % (ln, name, i, o.vals()[i], exp[i], o.vals(), exp))
                self.add_expect(ln, chk)
            elif r['kind'] == 'put':
                def chk(o, r_, ln=ln, name=name):
                    if o.get('mod') != '0': return (('buffer_modified', 'iput', 'after completion'), 'line %d: write buffer of %s differs from its content at posting time' % (ln, name))
                self.add_expect(ln, chk)
            elif cancel:
                def chk(o, r_, ln=ln, name=name):
                    if o.get('mod') != '0': return (('buffer_modified', 'iget', 'cancelled'), 'line %d: buffer of cancelled %s was modified' % (ln, name))
                self.add_expect(ln, chk)
        if self.np > 1:
            self.op('*', 'sync'); self.op('*', 'barrier')
        if not getattr(self, 'uncertain', False):
            for v in range(len(self.model.vars)):
                self.get('*' if rank == '*' else rank, v, form='var', coll=coll, what='file-after-wait')

    def final(self):
        """complete whatever is left, then the file must hold every request that was not cancelled"""
        if self.pending or getattr(self, 'uncertain', False):
            left = list(self.pending)
            er = any(REQS[p[1]].get('erange') for p in self.pending.values())
            ln = self.op('*', 'wait', expect_rc=None if (getattr(self, 'uncertain', False) or er) else 0, f=0, kind='ALL', all=0 if self.indep else 1)
            done = self._complete(left)
            self.uncertain = False
            self.after_wait(done, False, '*')
        if self.indep: self.op('*', 'end_indep'); self.indep = False
        self.op('*', 'buffer_detach', f=0)
        self.finish()
        return self


# ------------------------------------------------------------------ enumerators
def ordered_selections(model, kmax, names=None):
    names = names or sorted(REQS)
    for k in range(1, kmax + 1):
        for sel in itertools.permutations(names, k):
            if compatible(model, sel): yield sel


def ordered_set_partitions(items):
    """all ways to split `items` into an ordered sequence of non-empty blocks (blocks are sets)"""
    items = list(items)
    if not items:
        yield []
        return
    n = len(items)
    # assign each item a block number, blocks numbered by order of completion; enumerate surjections
    for k in range(1, n + 1):
        for assign in itertools.product(range(k), repeat=n):
            if len(set(assign)) != k: continue
            yield [[items[i] for i in range(n) if assign[i] == b] for b in range(k)]


REPR_TRIPLES = [('P1', 'P3', 'G5'), ('P4', 'P6', 'G1'), ('G1', 'G2', 'P5'), ('P3', 'P9', 'P7'), ('G3', 'G6', 'P2'),
                ('P5', 'P8', 'G4'), ('P6', 'P7', 'P1'), ('G1', 'G4', 'G2'), ('P2', 'P4', 'G6'), ('G5', 'G7', 'P9')]


def gen_A(kmax, names=None):
    out = []
    probe = NB('probe')
    for sel in ordered_selections(probe.model, kmax, names):
        for how in ('fwd', 'rev', 'ALL', 'indep-fwd', 'split-fwd', 'split-rev'):
            if how != 'fwd' and len(sel) == 1 and how != 'ALL': continue
            s = NB('A-%s-%s' % ('.'.join(sel), how), indep=how.startswith('indep'))
            slots = [s.post(n) for n in sel]
            if how == 'fwd': s.wait(slots)
            elif how == 'rev': s.wait(list(reversed(slots)))
            elif how == 'ALL': s.wait_kind('ALL')
            elif how == 'split-fwd':
                for q in slots: s.wait([q])
            elif how == 'split-rev':
                for q in reversed(slots): s.wait([q])
            else: s.wait(slots, how='wait')
            out.append(s.final())
    return out


def gen_E(names):
    """requests posted AFTER a partial wait or cancel: post X, post Y, complete one of them, post Z, complete the rest in either order
    (space given back by the first completion may be reused by Z while the other request is still pending)"""
    out = []
    probe = NB('probe')
    for sel in ordered_selections(probe.model, 3, names):
        if len(sel) != 3: continue
        for first in (0, 1):
            for how1 in ('wait', 'cancel'):
                for order in ((2, 1 - first), (1 - first, 2)):
                    s = NB('E-%s-%d%s-%s' % ('.'.join(sel), first, how1[0], ''.join(map(str, order))))
                    slots = [s.post(sel[0]), s.post(sel[1])]
                    s.wait([slots[first]], how='cancel' if how1 == 'cancel' else 'wait_all')
                    slots.append(s.post(sel[2]))
                    for k in order: s.wait([slots[k]])
                    out.append(s.final())
    return out


def gen_B(triples, hows=('wait_all', 'wait')):
    """all ordered set-partitions x all permutations inside each wait"""
    out = []
    for tr in triples:
        for how in hows:
            for part in ordered_set_partitions(range(len(tr))):
                perms = [list(itertools.permutations(b)) for b in part]
                for combo in itertools.product(*perms):
                    s = NB('B-%s-%s-%s' % ('.'.join(tr), how, '|'.join(''.join(map(str, c)) for c in combo)), indep=(how == 'wait'))
                    slots = [s.post(n) for n in tr]
                    for blk in combo: s.wait([slots[i] for i in blk], how=how)
                    out.append(s.final())
    return out


def gen_C(triples):
    """NULL padding, by-kind completion, cancel of subsets, posting in define mode, leave-one-pending"""
    out = []
    for tr in triples:
        n = len(tr)
        # NULL at every position, naming all / naming all but one (which must stay pending)
        for named in [list(range(n))] + [[i for i in range(n) if i != j] for j in range(n)]:
            for pos in range(len(named) + 1):
                s = NB('C-null-%s-%s-%d' % ('.'.join(tr), ''.join(map(str, named)), pos))
                slots = [s.post(x) for x in tr]
                s.wait([slots[i] for i in named], null_at=(pos,))
                out.append(s.final())
            s = NB('C-part-%s-%s' % ('.'.join(tr), ''.join(map(str, named))))
            slots = [s.post(x) for x in tr]
            s.wait([slots[i] for i in named])
            out.append(s.final())
        for kind in ('PUT', 'GET'):
            for how in ('wait_all', 'cancel'):
                s = NB('C-kind-%s-%s-%s' % ('.'.join(tr), kind, how))
                for x in tr: s.post(x)
                s.wait_kind(kind, how=how)
                out.append(s.final())
        for k in range(1, n + 1):
            for sub in itertools.combinations(range(n), k):
                s = NB('C-cancel-%s-%s' % ('.'.join(tr), ''.join(map(str, sub))))
                slots = [s.post(x) for x in tr]
                s.wait([slots[i] for i in sub], how='cancel')
                out.append(s.final())
        # posting in define mode
        s = NB('C-indef-%s' % '.'.join(tr))
        s.op('*', 'redef')
        slots = [s.post(x) for x in tr]
        s.op('*', 'enddef')
        s.wait(slots)
        out.append(s.final())
        # an id that was never issued inside a partial wait: nothing may be lost
        for pos in range(3):
            for follow in (0, 1):
                s = NB('C-bogus-%s-%d-%d' % ('.'.join(tr), pos, follow))
                slots = [s.post(x) for x in tr]
                s.wait(slots[:2], bogus_at=pos)
                if follow:
                    # a later partial wait on the request that was not named; the two named before must not get lost
                    ln = s.op('*', 'wait', expect_rc=None, f=0, ids=['q%d' % slots[2]], all=1)
                    s._complete([slots[2]])
                out.append(s.final())
    return out


def gen_D(triples, np=2):
    """np ranks, every assignment of the requests to ranks (different request counts per rank, including none)"""
    out = []
    for tr in triples:
        for assign in itertools.product(range(np), repeat=len(tr)):
            for how in ('ids', 'ALL'):
                s = NB('D-%s-%s-%s' % ('.'.join(tr), ''.join(map(str, assign)), how), np=np)
                slots = [s.post(x, rank=assign[i]) for i, x in enumerate(tr)]
                if how == 'ALL':
                    s.wait_kind('ALL')
                else:
                    # one collective wait_all; each rank names its own requests: emit per-rank lines without the lock-step
                    done = []
                    for rk in range(np):
                        mine = [slots[i] for i in range(len(tr)) if assign[i] == rk]
                        er = any(REQS[tr[i]].get('erange') for i in range(len(tr)) if assign[i] == rk)
                        ln = s.op(rk, 'wait', expect_rc=None if er else 0, f=0, ids=['q%d' % q for q in mine] if mine else None, all=1, num=len(mine))
                        done += s._complete(mine)
                    s.after_wait(done, False, '*')
                out.append(s.final())
        # one rank passes an id that was never issued: the other rank's valid requests must still be carried out (or stay pending)
        for badrank in range(np):
            s = NB('D-bogus-%s-%d' % ('.'.join(tr), badrank), np=np)
            slots = [s.post(x, rank=i % np) for i, x in enumerate(tr)]
            for rk in range(np):
                mine = [slots[i] for i in range(len(tr)) if i % np == rk]
                ids = ['q%d' % q for q in mine] + (['raw:9999'] if rk == badrank else [])
                ln = s.op(rk, 'wait', expect_rc=None, f=0, ids=ids, all=1)
                if rk != badrank:
                    def chk(o, r_, ln=ln, n=len(mine)):
                        if o.rc == 0 and any(x is not None for x in o.ints('ids')):
                            return (('id_not_reset', 'wait_all', 'peer had unknown id'), 'line %d: rc=0 but ids %s' % (ln, o.get('ids')))
                    s.add_expect(ln, chk)
            s.uncertain = True
            s.trace.append(('wait_all', 'bogus-on-rank', badrank))
            out.append(s.final())
    return out


def main(tier=None):
    ck = Check('C02', 'model_checking', tier)
    b = build.build('plain')
    thorough = ck.tier == 'thorough'
    scripts = []
    CORE8 = ['P1', 'P3', 'P5', 'P6', 'PA', 'PC', 'P7', 'G1', 'G4', 'G5']
    CORE6 = ['P1', 'P4', 'P6', 'PB', 'PD', 'G2', 'G5']
    quads = [('P1', 'P3', 'G5', 'G6'), ('P4', 'P6', 'G1', 'G2'), ('P5', 'P8', 'P9', 'G4'), ('G1', 'G2', 'G4', 'G7')]
    if thorough:
        scripts += gen_A(3)
        scripts += gen_A(4, names=[n for n in CORE6 if n in REQS])
        scripts += gen_B(REPR_TRIPLES)
        scripts += gen_C(REPR_TRIPLES)
        scripts += gen_D(REPR_TRIPLES, 2)
        scripts += gen_D(REPR_TRIPLES, 3)
        scripts += gen_B(quads)
        scripts += gen_C(quads)
        scripts += gen_E(['P7', 'PE', 'PF', 'PG', 'P1', 'P3', 'P6', 'PA', 'G5', 'G1'])
    else:
        scripts += gen_A(2)
        scripts += gen_A(3, names=[n for n in CORE8 if n in REQS])
        scripts += gen_B(REPR_TRIPLES)
        scripts += gen_C(REPR_TRIPLES)
        scripts += gen_D(REPR_TRIPLES, 2)
        scripts += gen_B(quads[:2], hows=('wait_all',))
        scripts += gen_E(['P7', 'PE', 'PF', 'PG', 'P1', 'G5'])
    results = runner.run_cases(b['vx'], [s.case for s in scripts], batch=40)
    states = set(); trans = set()
    for s, r in zip(scripts, results):
        ck.cov['evaluations'] += 1
        if r.detail.startswith('FLAKE'): ck.flakes += 1
        for sig, detail in s.judge(r): ck.violation(sig, s.case.text(), s.case.name + ': ' + detail)
        # model-level state graph actually walked
        st = (frozenset(), frozenset())
        states.add(st)
        pend = []; done = []
        for t in s.trace:
            if t[0] == 'post': pend = pend + [t[1]]
            else:
                named = [n for n in (t[1] if isinstance(t[1], tuple) else ()) if n]
                if isinstance(t[1], str): named = [n for n in pend if t[1] == 'ALL' or (t[1] == 'PUT') == (REQS[n]['kind'] == 'put')]
                pend = [n for n in pend if n not in named]; done = done + named
            ns = (frozenset(pend), frozenset(done))
            trans.add((st, t)); states.add(ns); st = ns
        for rank, lines in r.ranks.items():
            for ln, o in lines.items():
                if o.get('op') in ('wait', 'cancel', 'rbuf'): ck.outcomes.add((o.get('op'), o.get('rc'), o.get('st'), o.get('vals')))
    ck.cov.update(states=len(states), transitions=len(trans), traces_validated_against_impl=len(scripts),
                  distinct_nontrivial=len(set(tuple(s.trace) for s in scripts)),
                  rule='histories = ordered selections of <=3 compatible requests from the full request alphabet (quick: <=2, plus <=3 over an 8-letter core; thorough: plus <=4 over a 6-letter core) x {all ordered set-partitions into waits x all id permutations, '
                       'NULL padding at every position, by-kind completion, cancel of every subset, posting in define mode, unknown id in a partial wait, requests posted after a partial wait or cancel (incl. several buffered writes), every assignment of requests to 2-3 ranks}; '
                       'each history is replayed on a fresh file and compared step by step with the blocking reference model; state = (pending set, completed set)')
    ck.sample(scripts[0].case.text()[:2000]); ck.sample(scripts[-1].case.text()[:2000])
    ck.assumptions += ['<= 4 pending requests, np <= 3', 'a history never reads an element that a pending request of the same history writes (order between them is undocumented)']
    runner.cleanup()
    return ck.finish(min_eval=200, min_outcomes=20)


if __name__ == '__main__':
    sys.exit(main(sys.argv[1] if len(sys.argv) > 1 else None))
