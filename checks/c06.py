"""C06 Redefinition preserves existing data; abort is all-or-nothing — base layouts x deltas x np x move-unit products."""
import itertools, sys, os
sys.path.insert(0, os.path.dirname(os.path.dirname(os.path.abspath(__file__))))
from engine import build, runner, cdf
from engine.common import Check
from engine.prog import Prog
from engine.bfs import emit_std
from engine.model import data as D

BASES = {
    'fixed': ([('x', 3), ('y', 2)], [('fa', D.NC_SHORT, [0]), ('fb', D.NC_INT, [0, 1])]),
    'rec1odd': ([('t', None), ('x', 3)], [('ra', D.NC_SHORT, [0, 1])]),
    'rec2': ([('t', None), ('x', 3)], [('ra', D.NC_BYTE, [0, 1]), ('rb', D.NC_INT, [0])]),
    'mix': ([('t', None), ('x', 3), ('y', 2)], [('fa', D.NC_BYTE, [1]), ('ra', D.NC_SHORT, [0, 2]), ('fb', D.NC_DOUBLE, [2]), ('rb', D.NC_BYTE, [0])]),
    'mix1': ([('t', None), ('x', 3)], [('fa', D.NC_INT, [1]), ('ra', D.NC_SHORT, [0, 1])]),
}
ALIGN = {'default': None, 'tight': 'nc_header_align_size=4;nc_var_align_size=4;nc_record_align_size=4', 'gap': None}     # 'gap': free space between the fixed and the record section (v_minfree)


def delta(p, kind, k, dims):
    """apply one redefinition delta (k = repetition index, for fresh names)"""
    un = next((i for i, d in enumerate(p.m.dims) if d[1] is None), -1)
    if kind == 'att_small': p.do(dict(op='put_att', v=-1, name='s%d' % k, xtype=D.NC_BYTE, vals=[1]))
    elif kind == 'att_large': p.do(dict(op='put_att', v=-1, name='L%d' % k, xtype=D.NC_INT, vals=list(range(150))))
    elif kind == 'fixed_var':
        p.do(dict(op='def_dim', name='n%d' % k, len=5)); p.do(dict(op='def_var', name='nf%d' % k, xtype=D.NC_SHORT, dims=[len(p.m.dims) - 1]))
    elif kind == 'rec_var':
        if un < 0: p.do(dict(op='def_dim', name='t', len=None)); un = len(p.m.dims) - 1
        p.do(dict(op='def_var', name='nr%d' % k, xtype=D.NC_BYTE, dims=[un]))
    elif kind == 'both':
        delta(p, 'fixed_var', k, dims); delta(p, 'rec_var', k, dims); delta(p, 'att_large', k, dims)
    elif kind == 'att_large_rec':
        delta(p, 'att_large', k, dims); delta(p, 'rec_var', k, dims)
    elif kind == 'copy_att':
        # the large attribute arrives through ncmpi_copy_att from a second file that is open in data mode while the target is in define mode
        from engine.runner import hexname
        nm = 'L%d' % k; vals = list(range(150)); c = p.case
        c.op('*', 'create', f=1, path='src%d.nc' % k, fmt=1)
        c.op('*', 'put_att', f=1, v=-1, name=hexname(nm), xtype='int', n=len(vals), vals=vals); c.op('*', 'enddef', f=1)
        rcs, st = p.m.apply(dict(op='put_att', v=-1, name=nm, xtype=D.NC_INT, vals=vals)); assert 0 in rcs; p.m = st
        p.rc_lines.append((c.op('*', 'copy_att', f=1, v=-1, name=hexname(nm), f2=0, v2=-1), 0))
        c.op('*', 'close', f=1)
    elif kind == 'realign': pass
    else: raise ValueError(kind)


def enddef_op(kind, k):
    if kind == 'realign': return dict(op='_enddef', h_minfree=64 * (k + 1), v_align=32 * (k + 1), v_minfree=20 * (k + 1), r_align=16 * (k + 1))
    return dict(op='enddef')


DELTAS = ['att_small', 'att_large', 'fixed_var', 'rec_var', 'both', 'copy_att', 'realign', 'att_large_rec']


def gen(fmts, nps, units, nrecs_list, bases, aligns, reps=(1, 2), pres=('coll',), fill=False):
    progs = []
    for fmt, bname, al, nrec, dk, rep, np, unit, pre in itertools.product(fmts, bases, aligns, nrecs_list, DELTAS, reps, nps, units, pres):
        dims, vars_ = BASES[bname]
        if pre == 'indep_div' and (np < 2 or not any(d[1] is None for d in dims)): continue
        if nrec and not any(d[1] is None for d in dims) and nrec != nrecs_list[0]: continue
        env = {'PNETCDF_VERIF_MOVE_UNIT': str(unit)} if unit else None
        p = Prog('R-f%d-%s-%s-r%d-%s-x%d-np%d-u%s%s%s' % (fmt, bname, al, nrec, dk, rep, np, unit, '' if pre == 'coll' else '-' + pre, '-fill' if fill else ''), np, fmt, ALIGN[al], env)
        if fill: p.do(dict(op='set_fill', mode=1))      # new variables are filled at enddef: the fill may not touch what is already there
        for n, l in dims: p.do(dict(op='def_dim', name=n, len=l))
        for n, t, dd in vars_: p.do(dict(op='def_var', name=n, xtype=t, dims=dd))
        p.do(dict(op='_enddef', h_minfree=0, v_align=0, v_minfree=3000, r_align=0) if al == 'gap' else dict(op='enddef'))
        p.write_all(nrec=nrec if nrec else 1) if nrec or not any(d[1] is None for d in dims) else [p.do(dict(op='put', v=i, start=[0] * len(v[2]), count=p.m.shape(i), vals=[(i * 5 + k) % 90 + 1 for k in range(p.m.inner(i))], coll=1, mem=D.XT_MEM[v[1]])) for i, v in enumerate(vars_) if not p.m.isrec(i)]
        for k in range(rep):
            if pre == 'indep_div':
                # independent data mode: only the higher ranks append records, so the in-memory record counts differ between the
                # processes when define mode is entered directly from independent mode
                rv = next(i for i in range(len(p.m.vars)) if p.m.isrec(i))
                sh = p.m.shape(rv); inner = p.m.inner(rv); t = p.m.vars[rv]['xtype']
                p.do(dict(op='begin_indep'))
                base_n = p.m.numrecs
                for rank in range(np):
                    if rank == (np - 1 if k % 2 else 0) and np > 2: continue      # one process appends nothing; alternately the root or the last one holds the highest count
                    o = dict(op='put', v=rv, start=[base_n + (np - 1 - rank if k % 2 == 0 else rank)] + [0] * (len(sh) - 1), count=[1] + sh[1:], vals=[(rank * 7 + j + k) % 60 + 20 for j in range(inner)], coll=0, mem=D.XT_MEM[t])
                    rcs, st = p.m.apply(o); assert 0 in rcs; p.m = st
                    p.rc_lines.append((emit_std(p.case, rank, o, None), 0))
            p.do(dict(op='redef'))
            delta(p, dk, k, dims)
            p.do(enddef_op(dk, k))
            p.read_all('after enddef %d' % (k + 1))
            p.checkpoint('enddef after redef %d' % (k + 1))
        p.do(dict(op='close')); p.checkpoint('close', closed=True)
        # reopen and read again
        p.case.op('*', 'open', f=0, path='a.nc', write=0); p.m.mode = 'COLL'
        p.read_all('after reopen')
        p.case.op('*', 'close', f=0)
        progs.append(p)
    return progs


def gen_abort(fmts, nps):
    progs = []
    for fmt, bname, dk, np, mode in itertools.product(fmts, ['mix', 'rec1odd', 'fixed'], DELTAS[:6], nps, ['coll', 'indep']):
        dims, vars_ = BASES[bname]
        p = Prog('AB-f%d-%s-%s-np%d-%s' % (fmt, bname, dk, np, mode), np, fmt)
        for n, l in dims: p.do(dict(op='def_dim', name=n, len=l))
        for n, t, dd in vars_: p.do(dict(op='def_var', name=n, xtype=t, dims=dd))
        p.do(dict(op='enddef')); p.write_all(nrec=2)
        if mode == 'indep': p.do(dict(op='begin_indep'))
        p.do(dict(op='redef'))
        p.case.op('*', 'barrier'); s0 = p.case.op(0, 'snap', path='a.nc'); p.case.op('*', 'barrier')
        delta(p, dk, 0, dims)
        ln = p.case.op('*', 'abort', f=0)
        p.case.op('*', 'barrier'); s1 = p.case.op(0, 'snap', path='a.nc'); p.case.op('*', 'barrier')
        p.abort = (s0, s1, ln, 'redef')
        progs.append(p)
    for fmt, np in itertools.product(fmts, nps):
        p = Prog('ABN-f%d-np%d' % (fmt, np), np, fmt)
        p.do(dict(op='def_dim', name='x', len=3)); p.do(dict(op='def_var', name='v', xtype=D.NC_INT, dims=[0]))
        ln = p.case.op('*', 'abort', f=0)
        p.case.op('*', 'barrier'); s1 = p.case.op(0, 'snap', path='a.nc'); p.case.op('*', 'barrier')
        p.abort = (None, s1, ln, 'new')
        progs.append(p)
        # abort in data mode (collective and independent) behaves like close: file intact
        for mode in ('coll', 'indep'):
            p = Prog('ABD-f%d-np%d-%s' % (fmt, np, mode), np, fmt)
            p.do(dict(op='def_dim', name='t', len=None)); p.do(dict(op='def_var', name='v', xtype=D.NC_INT, dims=[0]))
            p.do(dict(op='enddef')); p.write_all(nrec=2)
            if mode == 'indep':
                p.do(dict(op='begin_indep'))
                p.do(dict(op='put', v=0, start=[3], count=[1], vals=[77], coll=0, mem='int'))
            ln = p.case.op('*', 'abort', f=0)
            p.m.mode = 'CLOSED'
            p.checkpoint('abort in data mode', closed=True)
            progs.append(p)
    return progs


def main(tier=None):
    ck = Check('C06', 'exploration', tier)
    b = build.build('plain')
    thorough = ck.tier == 'thorough'
    if thorough:
        progs = gen((1, 2, 5), (1, 2, 3, 4), (None, 8, 24, 64), (0, 1, 3), list(BASES), list(ALIGN)) + gen((1, 5), (2, 3, 4), (None, 8), (0, 2), ['rec1odd', 'rec2', 'mix', 'mix1'], ['tight', 'gap'], pres=('indep_div',)) + gen((1, 2, 5), (1, 2, 3), (None, 8), (0, 1, 3), list(BASES), list(ALIGN), fill=True)
    else:
        progs = gen((1, 5), (1, 3), (None, 8), (0, 3), ['rec1odd', 'mix', 'fixed'], ['tight']) + gen((2,), (2, 4), (24,), (1,), ['rec2', 'mix1'], ['default'], reps=(2,)) + gen((1,), (1, 2), (None,), (3,), ['mix', 'mix1'], ['gap'], reps=(1,)) + gen((1,), (2, 3), (None, 8), (2,), ['rec1odd', 'mix'], ['tight'], reps=(1, 2), pres=('indep_div',)) + gen((1, 5), (1, 2), (None,), (0, 3), ['rec1odd', 'mix', 'fixed'], ['tight', 'gap'], reps=(1, 2), fill=True)
    progs += gen_abort((1, 2, 5) if thorough else (1, 5), (1, 2, 3) if thorough else (1, 2))
    results = runner.run_cases(b['vx'], [p.case for p in progs], batch=40)
    moved = 0
    for p, r in zip(progs, results):
        ck.cov['evaluations'] += 1
        if r.detail.startswith('FLAKE'): ck.flakes += 1
        for sig, detail in p.judge(r): ck.violation(sig, p.case.text(), p.case.name + ': ' + detail)
        ab = getattr(p, 'abort', None)
        if ab and r.status == 'ok':
            s0, s1, ln, kind = ab
            if r.rc(0, ln) != 0: ck.violation(('rc', 'abort', kind), p.case.text(), p.case.name + ': abort returned %d' % r.rc(0, ln))
            elif kind == 'new' and r.r(0, s1).rc == 0: ck.violation(('abort_new_file', 'abort', 'file still exists'), p.case.text(), p.case.name + ': aborted new file still on disk')
            elif kind == 'redef' and r.r(0, s0).get('hex') != r.r(0, s1).get('hex'):
                ck.violation(('abort_redef', 'abort', 'file bytes changed'), p.case.text(), p.case.name + ': file after abort differs from the file when define mode was re-entered')
            ck.outcomes.add(('abort', kind, r.r(0, s1).rc))
        if r.status == 'ok' and len(p.cps) >= 2:
            # did the layout actually move? (coverage statistic)
            try:
                a = cdf.decode(bytes.fromhex(r.r(0, p.cps[0]['snap']).get('hex', '')), with_data=False, strict=False)
                ck.outcomes.add(tuple(v.begin for v in a.vars))
            except cdf.CDFError: pass
    ck.cov['distinct_nontrivial'] = len(ck.outcomes)
    ck.cov['rule'] = ('base layouts {fixed only, one odd-sized record variable, two record variables, fixed/record mixes} x records {0,1,3} x alignment {default,tight} x deltas {small attribute, large attribute (header outgrows extent), '
                      'new fixed variable, new record variable, all three, a large attribute copied with copy_att from a second file open in data mode, larger minfree/alignment via ncmpi__enddef} applied once and twice x formats x np 1-4 x PNETCDF_VERIF_MOVE_UNIT {unset,8,24,64} x {no fill, dataset fill mode (added variables are filled at enddef)} x {redef from collective mode, redef entered directly from independent mode after the higher ranks appended records (per-process record counts differ)}; every existing element is read back '
                      'through the API after each enddef and after reopen, and the decoded file is compared with the model; abort after redef must leave the file byte-identical, abort of a new file must remove it; '
                      'distinct_nontrivial = distinct variable-offset layouts reached')
    ck.sample(progs[0].case.text()[:1500]); ck.sample(progs[len(progs) // 3].case.text()[:1500])
    ck.assumptions += ['no fill mode (C16 covers fill during redefinition)']
    runner.cleanup()
    return ck.finish(min_eval=100, min_outcomes=10)


if __name__ == '__main__':
    sys.exit(main(sys.argv[1] if len(sys.argv) > 1 else None))
