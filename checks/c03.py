"""C03 Files written conform to the CDF-1/2/5 specification — schema x alignment x history products, independent decode."""
import itertools, sys, os
sys.path.insert(0, os.path.dirname(os.path.dirname(os.path.abspath(__file__))))
from engine import build, runner, cdf, fileck
from engine.common import Check
from engine.runner import Case
from engine.bfs import emit_std
from engine.script import first_frame
from engine.model.filemodel import FileModel
from engine.model import data as D


from engine.prog import Prog


# ------------------------------------------------------------------ schema alphabet
def types_for(fmt): return [1, 2, 3, 4, 5, 6] + ([7, 8, 9, 10, 11] if fmt == 5 else [])

DIMSETS = [[], [('x', 2)], [('t', None), ('x', 3)], [('y', 1), ('z', 5), ('t', None)], [('t', None)]]
NAMES = ['a', 'bb', 'ccc', 'dddd', 'e5555', 'café', 'naïve', '_u']


def att_choices(fmt, heavy):
    out = [[]]
    out.append([('title', D.NC_CHAR, b'')])
    out.append([('n1', D.NC_CHAR, b'x'), ('n4', D.NC_CHAR, b'abcd')])
    out.append([('t5', D.NC_CHAR, b'abcde'), ('i0', D.NC_INT, [])])
    ts = types_for(fmt)
    if heavy:
        for t in ts:
            if t == D.NC_CHAR: continue
            out.append([('v%d' % t, t, [1] if t != 5 and t != 6 else [1.5]), ('w%d' % t, t, [1, 2, 3])])
    else:
        out.append([('s', D.NC_SHORT, [1, 2, 3]), ('d', D.NC_DOUBLE, [2.5])])
        if fmt == 5: out.append([('u', D.NC_UBYTE, [200]), ('q', D.NC_UINT64, [2 ** 63 + 5, 1])])
    return out


def var_choices(dims, fmt, heavy):
    """lists of (name, xtype, dimids)"""
    nd = len(dims)
    un = next((i for i, d in enumerate(dims) if d[1] is None), -1)
    fixed_dims = [i for i in range(nd) if i != un]
    out = [[]]
    if fmt == 5: odd = [D.NC_BYTE, D.NC_SHORT, D.NC_CHAR, D.NC_UBYTE, D.NC_INT64]
    else: odd = [D.NC_BYTE, D.NC_SHORT, D.NC_CHAR, D.NC_DOUBLE]
    out.append([('s0', D.NC_INT, [])])
    if fixed_dims:
        f0 = fixed_dims[0]
        out.append([('f1', odd[0], [f0]), ('f2', odd[1], [f0])])
        if len(fixed_dims) > 1: out.append([('g', odd[1], [fixed_dims[1]]), ('h', D.NC_INT, [fixed_dims[0], fixed_dims[1]]), ('k', odd[2], [fixed_dims[1]])])
    if un >= 0:
        out.append([('r1', odd[1], [un])])                                  # exactly one record variable: unpadded records
        out.append([('r1', odd[0], [un]), ('r2', odd[1], [un])])
        if fixed_dims:
            f0 = fixed_dims[0]
            out.append([('ra', odd[1], [un, f0]), ('fx', odd[0], [f0]), ('rb', odd[2], [un])])      # record var defined before a fixed one
            out.append([('fx', odd[1], [f0]), ('ra', odd[2], [un, f0])])
            if heavy: out.append([('fx', D.NC_DOUBLE, [f0]), ('ra', odd[0], [un, f0]), ('fy', odd[0], []), ('rb', D.NC_INT, [un])])
    return out


def define(p, dims, gatts, vars_, vatt=True):
    for n, l in dims: p.do(dict(op='def_dim', name=n, len=l))
    for n, t, v in gatts: p.do(dict(op='put_att', v=-1, name=n, xtype=t, vals=v))
    for i, (n, t, dd) in enumerate(vars_):
        p.do(dict(op='def_var', name=n, xtype=t, dims=dd))
        if vatt and i % 2 == 0: p.do(dict(op='put_att', v=i, name='units', xtype=D.NC_CHAR, vals=b'm/s'))


ALIGNS = [  # (hints, enddef op, env hints)
    (None, dict(op='enddef'), None),
    ('nc_header_align_size=4;nc_var_align_size=4', dict(op='enddef'), None),
    ('nc_header_align_size=6', dict(op='enddef'), None),
    ('nc_var_align_size=512;nc_record_align_size=512', dict(op='enddef'), None),
    (None, dict(op='_enddef', h_minfree=1, v_align=6, v_minfree=0, r_align=0), None),
    (None, dict(op='_enddef', h_minfree=512, v_align=512, v_minfree=6, r_align=512), None),
    ('nc_var_align_size=8', dict(op='_enddef', h_minfree=0, v_align=512, v_minfree=1, r_align=6), None),
    (None, dict(op='_enddef', h_minfree=0, v_align=512, v_minfree=0, r_align=0), dict(nc_header_align_size='1000', nc_record_align_size='20')),
]


def gen(fmts, heavy, nps):
    progs = []
    for fmt in fmts:
        for di, dims in enumerate(DIMSETS):
            atts = att_choices(fmt, heavy)
            vcs = var_choices(dims, fmt, heavy)
            for ai, gatts in enumerate(atts):
                for vi, vars_ in enumerate(vcs):
                    # pairwise-ish: full product with alignment for the light tier is large; rotate alignment and history
                    for al_i, (hints, ed, envh) in enumerate(ALIGNS):
                        if not heavy and (al_i + ai + vi + di) % 4 != 0: continue
                        for hi in range(7):
                            if hi < 4 and not heavy and (hi + vi + al_i) % 2 != 0: continue
                            for np in nps:
                                if hi == 4 and (np < 2 or not any(d[1] is None for d in dims) or not vars_ or (not heavy and (ai + al_i) % 2)): continue
                                if hi == 5 and (not any(d[1] is None for d in dims) or not vars_ or al_i > 1 or (np > 1 and ai % 2) or (not heavy and (ai + vi) % 2)): continue
                                if hi < 4 and np > 1 and (hi + ai) % 3 != 0: continue
                                if hi == 6 and (not vars_ or (np > 1 and ai % 2) or (not heavy and (ai + vi + al_i) % 2)): continue
                                env = {'PNETCDF_HINTS': ';'.join('%s=%s' % kv for kv in envh.items())} if envh else None
                                p = Prog('S-f%d-d%d-a%d-v%d-al%d-h%d-np%d' % (fmt, di, ai, vi, al_i, hi, np), np, fmt, hints, env)
                                p.envh = envh
                                define(p, dims, gatts, vars_)
                                # overwrite attributes with values of a strictly smaller padded size while still in define mode
                                if (ai + vi + hi) % 2 == 0:
                                    for a in gatts:
                                        if len(a[2]) * D.XT_SIZE[a[1]] > 4:
                                            p.do(dict(op='put_att', v=-1, name=a[0], xtype=a[1], vals=a[2][:1])); break
                                    if vars_ and p.m.vars[0]['atts']:
                                        p.do(dict(op='put_att', v=0, name='units', xtype=D.NC_CHAR, vals=b'K'))
                                if hi == 6:
                                    # h6: names whose byte length changes under the library's NFC normalisation (the header holds the normalised form):
                                    # one that grows, one that shrinks, given in define mode; the first is replaced in data mode by one that shrinks
                                    p.do(dict(op='rename_var', v=0, name='\u0958x'))
                                    if len(vars_) > 1: p.do(dict(op='rename_var', v=len(vars_) - 1, name='e\u0301q'))
                                    elif dims: p.do(dict(op='rename_dim', d=0, name='e\u0301q'))
                                # h5: free space between the fixed-size and the record section; the later redefinition outgrows the header
                                # extent (fixed-size variables shift into the gap) and adds a record variable (records must be re-strided)
                                p.do(dict(op='_enddef', h_minfree=0, v_align=4, v_minfree=2000, r_align=4) if hi == 5 else ed); p.checkpoint('enddef')
                                if hi >= 1:
                                    p.write_all(); p.do(dict(op='sync')); p.checkpoint('sync')
                                if hi == 2:
                                    p.do(dict(op='redef'))
                                    p.do(dict(op='put_att', v=-1, name='zz_big', xtype=D.NC_INT, vals=list(range(30))))
                                    p.do(dict(op='def_dim', name='nd', len=3))
                                    p.do(dict(op='def_var', name='nv', xtype=D.NC_SHORT, dims=[len(dims)]))
                                    if any(d[1] is None for d in dims):
                                        p.do(dict(op='def_var', name='nr', xtype=D.NC_BYTE, dims=[next(i for i, d in enumerate(dims) if d[1] is None)]))
                                    p.do(dict(op='enddef')); p.checkpoint('enddef after redef')
                                if hi == 4:
                                    # independent data mode: the last process and the root append different numbers of records, then the mode is left and the file
                                    # redefined so that the record section has to move: the file must hold every record written
                                    rvs = [i for i in range(len(p.m.vars)) if p.m.isrec(i)]
                                    if rvs:
                                        rv = rvs[0]; sh = p.m.shape(rv); inner = p.m.inner(rv); t = p.m.vars[rv]['xtype']
                                        p.write_all(nrec=2)
                                        p.do(dict(op='begin_indep'))
                                        for rank, rec in ((np - 1, 2), (0, 3)):       # the root ends with the highest count, the others with lower ones
                                            o = dict(op='put', v=rv, start=[rec] + [0] * (len(sh) - 1), count=[1] + sh[1:], vals=[(j * 3 + rec) % 50 + 40 for j in range(inner)], coll=0, mem='text' if t == D.NC_CHAR else D.XT_MEM[t])
                                            rcs, st = p.m.apply(o); assert 0 in rcs, (o, rcs)
                                            p.m = st
                                            p.rc_lines.append((emit_std(p.case, rank, o, None), 0))
                                        p.do(dict(op='end_indep')); p.checkpoint('end_indep')
                                        p.do(dict(op='redef'))
                                        p.do(dict(op='put_att', v=-1, name='zz_big', xtype=D.NC_INT, vals=list(range(200))))
                                        p.do(dict(op='enddef')); p.checkpoint('enddef after independent appends')
                                if hi == 5:
                                    p.write_all(nrec=3); p.do(dict(op='sync')); p.checkpoint('sync')
                                    p.do(dict(op='redef'))
                                    p.do(dict(op='put_att', v=-1, name='zz_big', xtype=D.NC_INT, vals=list(range(150))))
                                    p.do(dict(op='def_var', name='nr', xtype=D.NC_SHORT, dims=[next(i for i, d in enumerate(dims) if d[1] is None)]))
                                    p.do(dict(op='enddef')); p.checkpoint('enddef after redef into the gap')
                                    p.read_all('after redef into the gap')
                                if hi == 6:
                                    p.write_all(); p.do(dict(op='sync')); p.checkpoint('sync after renames to non-normalised names')
                                    p.do(dict(op='rename_var', v=0, name='o\u0308')); p.checkpoint('rename_var to a non-normalised name in data mode')
                                if hi == 3 and vars_:
                                    n0 = vars_[0][0]
                                    if len(n0) > 1 and not any(v[0] == n0[0] for v in vars_):
                                        p.do(dict(op='rename_var', v=0, name=n0[0])); p.checkpoint('rename_var in data mode')
                                    if gatts and len(p.m.gatts[0][2]) > 0:
                                        a = p.m.gatts[0]
                                        nv = bytes(reversed(a[2])) if isinstance(a[2], bytes) else [x + 1 for x in a[2]]
                                        p.do(dict(op='put_att', v=-1, name=a[0], xtype=a[1], vals=nv)); p.checkpoint('put_att in data mode')
                                        if len(nv) * D.XT_SIZE[a[1]] > 4:
                                            p.do(dict(op='put_att', v=-1, name=a[0], xtype=a[1], vals=nv[:1])); p.checkpoint('smaller put_att in data mode')
                                    if dims and len(dims[0][0]) > 1:
                                        p.do(dict(op='rename_dim', d=0, name=dims[0][0][0])); p.checkpoint('rename_dim in data mode')
                                p.do(dict(op='close')); p.checkpoint('close', closed=True)
                                progs.append(p)
    return progs


def gen_clobber(fmts):
    """nothing of a clobbered predecessor survives; empty-variable files are trimmed at close"""
    progs = []
    for fmt in fmts:
        for kind in ('regular', 'symlink', 'prefix'):
            for nocl in (0, 1):
                for withvar in (0, 1):
                    p = Prog('CL-f%d-%s-nc%d-v%d' % (fmt, kind, nocl, withvar), 1, fmt, create=False)
                    # 'prefix': the file is named with an MPI-IO file-system prefix ("ufs:/dir/a.nc"), which the library strips for its own POSIX
                    # calls and which only ROMIO understands: these cases run on Open MPI's ROMIO component
                    cpath = 'ufs:a.nc' if kind == 'prefix' else 'a.nc'
                    if kind == 'prefix': p.case.opts['mpiio'] = 'romio321'
                    if kind in ('regular', 'prefix'): p.case.op('*', 'mkfile', path='a.nc', size=3000, fillbyte=0xAA)
                    else:
                        p.case.op('*', 'mkfile', path='target.bin', size=3000, fillbyte=0xAA)
                        p.case.op('*', 'mkfile', path='a.nc', symlink='target.bin')
                    ln = p.case.op('*', 'create', f=0, path=cpath, fmt=fmt, noclobber=nocl)
                    p.rc_lines.append((ln, D.NC_EEXIST if nocl else 0))
                    if not nocl:
                        p.do(dict(op='def_dim', name='x', len=2))
                        if withvar: p.do(dict(op='def_var', name='v', xtype=D.NC_INT, dims=[0]))
                        p.do(dict(op='enddef'))
                        if withvar: p.write_all()
                        p.do(dict(op='close')); p.checkpoint('close', closed=True)
                        p.clobber = True
                    progs.append(p)
    return progs


def main(tier=None):
    ck = Check('C03', 'exploration', tier)
    b = build.build('plain')
    thorough = ck.tier == 'thorough'
    progs = gen((1, 2, 5), thorough, (1, 2)) + gen_clobber((1, 2, 5))
    results = runner.run_cases(b['vx'], [p.case for p in progs], batch=60)
    # the cases that ask for another MPI-IO component run in jobs of their own
    special = [i for i, p in enumerate(progs) if p.case.opts.get('mpiio')]
    if special:
        for i, r in zip(special, runner.run_cases(b['vx'], [progs[i].case for i in special], batch=12)): results[i] = r
    ncp = 0
    for p, r in zip(progs, results):
        ck.cov['evaluations'] += 1; ncp += len(p.cps)
        if r.detail.startswith('FLAKE'): ck.flakes += 1
        for sig, detail in p.judge(r, env_hints=getattr(p, 'envh', None)): ck.violation(sig, p.case.text(), p.case.name + ': ' + detail)
        if r.status == 'ok':
            for cp in p.cps:
                s = r.r(0, cp['snap'])
                if s is not None and s.rc == 0:
                    hx = s.get('hex', '')
                    ck.outcomes.add(hash(hx))
                    if getattr(p, 'clobber', False):
                        raw = bytes.fromhex(hx)
                        try:
                            f = cdf.decode(raw, with_data=False, strict=False)
                            # bytes of the predecessor (0xAA) may not appear anywhere in the header, and the file may not be longer than its content needs
                            if b'\xaa\xaa\xaa\xaa' in raw[:f.hdr_len]: ck.violation(('clobber', 'create', 'predecessor bytes in header'), p.case.text(), p.case.name + ': 0xAA bytes of the clobbered file inside the new header')
                            if not f.vars and len(raw) > f.hdr_len + 3: ck.violation(('clobber', 'close', 'file not trimmed'), p.case.text(), p.case.name + ': file without variables is %d bytes, header needs %d' % (len(raw), f.hdr_len))
                            if f.vars and b'\xaa' * 16 in raw: ck.violation(('clobber', 'create', 'predecessor bytes in file'), p.case.text(), p.case.name + ': 0xAA run of the clobbered file survives in the new file')
                        except cdf.CDFError: pass
    # ---- headers of files with variables above the 32-bit vsize range (no data is written: the files stay header-sized)
    big = []
    G31, G32 = 1 << 31, 1 << 32
    for fmt, np_ in itertools.product((1, 2, 5), (1, 2)):
        for kind in ('fixed-last', 'record-last', 'record-only'):
            if fmt == 1 and kind != 'fixed-last': continue
            c = Case('BIGHDR-f%d-%s-np%d' % (fmt, kind, np_), np_)
            c.op('*', 'create', f=0, path='a.nc', fmt=fmt, hints='nc_header_align_size=4;nc_var_align_size=4;nc_record_align_size=4')
            c.op('*', 'def_dim', f=0, name='t', unlim=1); c.op('*', 'def_dim', f=0, name='z', len=5)
            c.op('*', 'def_dim', f=0, name='x', len=3); c.op('*', 'def_dim', f=0, name='y', len=G31 - 8)
            if kind == 'fixed-last':
                c.op('*', 'def_var', f=0, name='small', xtype='byte', dims=[1]); c.op('*', 'def_var', f=0, name='big', xtype='byte', dims=[2, 3])
            elif kind == 'record-last':
                c.op('*', 'def_var', f=0, name='small', xtype='byte', dims=[1]); c.op('*', 'def_var', f=0, name='rs', xtype='short', dims=[0]); c.op('*', 'def_var', f=0, name='rbig', xtype='byte', dims=[0, 2, 3])
            else:
                c.op('*', 'def_var', f=0, name='rbig', xtype='short', dims=[0, 2, 3])
            le = c.op('*', 'enddef', f=0)
            ls = c.op('*', 'sweep', f=0, nomfp=1)
            c.op('*', 'barrier'); sn = c.op(0, 'snap', path='a.nc', ranges=[0, 2048]); c.op('*', 'barrier')
            c.op('*', 'close', f=0)
            c.op('*', 'barrier'); sn2 = c.op(0, 'snap', path='a.nc', ranges=[0, 2048]); c.op(0, 'unlink', path='a.nc')
            big.append((c, le, ls, sn, sn2))
    bres = runner.run_cases(b['vx'], [x[0] for x in big], batch=10)
    for (c, le, ls, sn, sn2), r in zip(big, bres):
        ck.cov['evaluations'] += 1
        if r.status != 'ok': ck.violation((r.status, 'large variable', first_frame(r.detail)), c.text(), c.name + ': ' + r.detail[:400]); continue
        if r.rc(0, le) != 0: ck.violation(('rc', 'enddef', 'large variable'), c.text(), '%s: enddef returned %d' % (c.name, r.rc(0, le))); continue
        for label, ln in (('after enddef', sn), ('after close', sn2)):
            o = r.r(0, ln)
            try:
                hf = cdf.decode(bytes.fromhex(o.get('hex', '')), with_data=False, strict=True)
                lo, _ = fileck.check_layout(hf, r.r(0, ls).json())
                if lo: ck.violation(('layout', 'large variable', lo[0][0]), c.text(), '%s %s: %s' % (c.name, label, lo[0][1])); break
            except cdf.CDFError as e:
                ck.violation(('not_wellformed', 'large variable', e.kind), c.text(), '%s %s: header does not decode: %s' % (c.name, label, e)); break
        ck.outcomes.add(('bighdr', c.name))
    ck.cov['distinct_nontrivial'] = len(ck.outcomes)
    ck.cov['checkpoints'] = ncp
    ck.cov['rule'] = ('product of dimension sets x global-attribute sets (every type, zero/odd lengths, UTF-8 names) x variable sets (fixed/record in every order, odd element sizes, exactly-one-record-variable) '
                      'x 8 alignment configurations (info hints, ncmpi__enddef arguments, PNETCDF_HINTS) x histories (enddef; +write+sync; +redef adding objects; +data-mode rename/put_att; independent appends; redef into a gap; renames to names whose byte length changes under NFC normalisation) x formats x np in {1,2} '
                      '(quick: a 1/8 cyclic sub-product); at every up-to-date point the file bytes are decoded by engine/cdf.py and compared with the model and the layout invariants; plus the headers of files whose last fixed-size / last record variable exceeds 2^32-4 bytes (vsize saturation) in every format that allows it; clobbering a longer predecessor (regular file, symbolic link, and - on the ROMIO component of Open MPI - a path with the MPI-IO prefix ufs:) leaves none of its bytes; distinct_nontrivial = distinct file images')
    ck.sample(progs[0].case.text()[:1500]); ck.sample(progs[len(progs) // 2].case.text()[:1800])
    ck.assumptions += ['the precedence between MPI_Info hints and ncmpi__enddef arguments is documented inconsistently; only the reported effective values are checked against the layout', 'codec engine/cdf.py is the trusted base (self-tested, cross-checked with ncvalidator)']
    runner.cleanup()
    return ck.finish(min_eval=100, min_outcomes=50)


if __name__ == '__main__':
    sys.exit(main(sys.argv[1] if len(sys.argv) > 1 else None))
