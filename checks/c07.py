"""C07 Metadata and namespace operations behave like a sequential model — BFS over define/put/rename/copy/delete histories."""
import sys, os, time
sys.path.insert(0, os.path.dirname(os.path.dirname(os.path.abspath(__file__))))
from engine import build, runner, cdf, fileck
from engine.common import Check
from engine.bfs import HistoryBFS, emit_std
from engine.model.filemodel import FileModel, DEF_NEW, DEF_RE, COLL
from engine.model import data as D

E_COMPOSED = 'café'          # NFC
E_DECOMPOSED = 'café'       # same name after normalisation
LONG = 'L' * 256                   # NC_MAX_NAME
GROWS = '\u0958'                   # 3 bytes as given, 6 bytes after NFC normalisation (U+0915 U+093C); E_DECOMPOSED shrinks from 6 to 5
NAMES = ['a', 'b', 'ab', 'abc', E_COMPOSED]


def make_init(name, hints, fmt=1):
    m = FileModel(fmt)
    def setup(c, hints=hints, fmt=fmt):
        c.op('*', 'create', f=0, path='a.nc', fmt=fmt, hints=hints)
    return (name, setup, m)


def make_init_populated(name, hints, fmt=1):
    """non-initial start: two dimensions, a variable and three attributes on the file and on the variable, all defined in the
    session the exploration continues in (the name tables are then in insertion order, not in the order a reopen rebuilds)"""
    m = FileModel(fmt)
    ops = [dict(op='def_dim', name='a', len=2), dict(op='def_dim', name='ab', len=2), dict(op='def_var', name='a', xtype=D.NC_INT, dims=[0])]
    for v in (-1, 0):
        for k, n in enumerate(['a', 'ab', E_COMPOSED]): ops.append(dict(op='put_att', v=v, name=n, xtype=D.NC_INT, vals=[k + 1, k + 2]))
    for o in ops:
        rcs, st = m.apply(o); assert 0 in rcs, o
        m = st
    def setup(c, hints=hints, fmt=fmt):
        c.op('*', 'create', f=0, path='a.nc', fmt=fmt, hints=hints)
        for o in ops: emit_std(c, '*', o, None)
    return (name, setup, m)


def emit(c, ranks, o, model):
    if o['op'] == 'reopen':
        c.op(ranks, 'close', f=0)
        return c.op(ranks, 'open', f=0, path='a.nc', write=1, hints=o.get('hints'))
    return emit_std(c, ranks, o, model)


def alphabet_for(thorough):
    def alphabet(m):
        A = []
        dimnames = ['a', 'ab', E_COMPOSED, 'abcde', 'abcd'] + ([E_DECOMPOSED, LONG] if thorough else [E_DECOMPOSED])
        for n in dimnames: A.append(dict(op='def_dim', name=n, len=2))
        for n in ['a', 'b', 'abc', 'abcde'] + ([E_DECOMPOSED] if thorough else []):
            A.append(dict(op='def_var', name=n, xtype=D.NC_INT, dims=[0] if m.dims else []))
        vs = [-1] + ([0] if m.vars else [])
        for v in vs:
            for n in ['a', 'ab', E_COMPOSED]:
                A.append(dict(op='put_att', v=v, name=n, xtype=D.NC_INT, vals=[1, 2, 3]))
            A.append(dict(op='put_att', v=v, name='a', xtype=D.NC_SHORT, vals=[7]))          # smaller, other type
            A.append(dict(op='put_att', v=v, name='a', xtype=D.NC_CHAR, vals=b'xy'))
            A.append(dict(op='put_att', v=v, name='ab', xtype=D.NC_DOUBLE, vals=[]))          # zero length
            A.append(dict(op='put_att', v=v, name='a', xtype=D.NC_DOUBLE, vals=[1.5, 2.5]))   # fewer elements than [1,2,3] but more bytes
            A.append(dict(op='put_att', v=v, name='a', xtype=D.NC_BYTE, vals=[1, 2, 3, 4, 5, 6, 7, 8, 9]))   # more elements than [1,2,3] but not more bytes (padded)
            if thorough: A.append(dict(op='put_att', v=v, name='a', xtype=D.NC_INT, vals=[1, 2, 3, 4, 5]))   # larger
            A.append(dict(op='put_att', v=v, name=E_DECOMPOSED, xtype=D.NC_INT, vals=[9]))
            A.append(dict(op='put_att', v=v, name='a', xtype=D.NC_BYTE, vals=[1, -127], emit_vals=[1, 300], mem='int', erange=True))   # NC_ERANGE: completed, fill stored
            for n in ['a', 'ab', E_DECOMPOSED]: A.append(dict(op='del_att', v=v, name=n))
            for (n, nn) in [('a', 'b'), ('a', 'ab'), ('ab', 'a'), ('a', 'a'), ('ab', 'zzz'), (E_DECOMPOSED, 'c')]:
                A.append(dict(op='rename_att', v=v, name=n, newname=nn))
        if m.vars:
            A.append(dict(op='copy_att', v=-1, name='a', v2=0)); A.append(dict(op='copy_att', v=0, name='a', v2=-1)); A.append(dict(op='copy_att', v=-1, name='a', v2=-1))
            A.append(dict(op='copy_att', v=-1, name='ab', v2=0))
            for nn in ['b', 'a', 'abc', 'q', 'abcd', E_DECOMPOSED, GROWS]: A.append(dict(op='rename_var', v=0, name=nn))
        if m.dims:
            for nn in ['b', 'a', 'ab', 'abc', E_DECOMPOSED, GROWS]: A.append(dict(op='rename_dim', d=0, name=nn))
            if len(m.dims) > 1: A.append(dict(op='rename_dim', d=1, name='a'))
        A += [dict(op='enddef'), dict(op='redef'), dict(op='reopen')]
        return A
    return alphabet


def extra_judge(node, o, r, lines, newm, rc):
    """a metadata change made in data mode is in the file as soon as the call returns; same content after close+open"""
    hl, s0, b0, lo, s1, b1 = lines
    if rc != 0 and not (rc == D.NC_ERANGE and o.get('erange')): return None
    datamode_change = node.model.mode == COLL and o['op'] in ('put_att', 'rename_att', 'rename_dim', 'rename_var', 'copy_att')
    if not (datamode_change or o['op'] in ('reopen', 'enddef')): return None
    snap = r.r(0, b1)
    if snap is None or snap.rc != 0: return (('file_missing', o['op'], newm.mode), 'no file after %s' % o['op'])
    try:
        f = cdf.decode(bytes.fromhex(snap.get('hex', '')), with_data=False, strict=True)
    except cdf.CDFError as e:
        return (('decode', o['op'], newm.mode), 'file does not decode after %s: %s' % (o['op'], e))
    v = fileck.check_logical(newm, f, check_data=False)
    if v: return (('header_on_disk', o['op'], v[0][0]), 'after %s returned, the file header says: %s' % (o['op'], v[0][1]))
    if s1 is not None:
        lo, _ = fileck.check_layout(f, r.r(0, s1).json())
        if lo: return (('header_layout', o['op'], lo[0][0]), 'after %s: %s' % (o['op'], lo[0][1]))
    return None


def copy_between_files(thorough):
    """copy_att between two different files whose variable counts differ, every (source variable, target variable, name) combination
    incl. ids valid in only one of the files, in define and in data mode of the target"""
    from engine.runner import Case, hexname
    cases = []
    for nsrc, ndst in ((1, 3), (3, 1), (0, 2)) + (((2, 4),) if thorough else ()):
        for dst_mode in ('define', 'data'):
            for np in ((1, 2) if thorough else (1,)):
                c = Case('COPY-s%d-d%d-%s-np%d' % (nsrc, ndst, dst_mode, np), np)
                c.op('*', 'create', f=0, path='src.nc', fmt=1); c.op('*', 'create', f=1, path='dst.nc', fmt=2)
                for f, n in ((0, nsrc), (1, ndst)):
                    c.op('*', 'def_dim', f=f, name=hexname('x'), len=2)
                    for v in range(n): c.op('*', 'def_var', f=f, name=hexname('v%d' % v), xtype='int', dims=[0])
                # source attributes: global title (text), per variable units (text) and scale (two ints)
                c.op('*', 'put_att', f=0, v=-1, name=hexname('title'), xtype='char', n=3, vals=[97, 98, 99])
                for v in range(nsrc):
                    c.op('*', 'put_att', f=0, v=v, name=hexname('units'), xtype='char', n=2, vals=[109 + v, 47])
                    c.op('*', 'put_att', f=0, v=v, name=hexname('scale'), xtype='int', n=2, vals=[10 + v, 20 + v])
                # the target holds larger attributes of the same names, so that a copy in data mode is legal
                for v in range(-1, ndst):
                    for nm in ('title', 'units', 'scale'): c.op('*', 'put_att', f=1, v=v, name=hexname(nm), xtype='double', n=2, vals=[0.5, 1.5])
                c.op('*', 'enddef', f=0)
                if dst_mode == 'data': c.op('*', 'enddef', f=1)
                src_atts = {-1: {'title': ('char', [97, 98, 99])}}
                for v in range(nsrc): src_atts[v] = {'units': ('char', [109 + v, 47]), 'scale': ('int', [10 + v, 20 + v])}
                ctx = []
                for vin in range(-1, nsrc + 2):
                    for vout in range(-1, ndst + 2):
                        for nm in ('title', 'units', 'scale', 'nosuch'):
                            ok_in = vin < nsrc; ok_out = vout < ndst
                            has = ok_in and nm in src_atts.get(vin, {})
                            exp = set()
                            if not ok_in: exp.add(D.NC_ENOTVAR)
                            if not ok_out: exp.add(D.NC_ENOTVAR)
                            if ok_in and not has: exp.add(D.NC_ENOTATT)
                            if not exp: exp = {0}
                            lc = c.op('*', 'copy_att', f=0, v=vin, name=hexname(nm), f2=1, v2=vout)
                            lg = c.op('*', 'get_att', f=1, v=vout, name=hexname(nm)) if (exp == {0}) else None
                            ctx.append((vin, vout, nm, exp, lc, lg, src_atts.get(vin, {}).get(nm)))
                c.op('*', 'close', f=0)
                if dst_mode == 'define': c.op('*', 'enddef', f=1)
                c.op('*', 'close', f=1)
                cases.append((c, ctx))
    return cases


def main(tier=None):
    ck = Check('C07', 'model_checking', tier)
    b = build.build('plain')
    thorough = ck.tier == 'thorough'
    H1 = 'nc_hash_size_dim=1;nc_hash_size_var=1;nc_hash_size_gattr=1;nc_hash_size_vattr=1'
    H2 = 'nc_hash_size_dim=2;nc_hash_size_var=2;nc_hash_size_gattr=2;nc_hash_size_vattr=2'
    if thorough:
        # depth 4 from the empty file (three hash-table sizes), depth 3 from the populated sessions: two searches, both run to completion
        bfs = HistoryBFS(ck, b['vx'], [make_init('hash1', H1), make_init('default', None, 5), make_init('hash2', H2, 2)], alphabet_for(True), maxdepth=4, reps=1, emit=emit, extra_judge=extra_judge)
        bfs.run(deadline=time.time() + 5400)
        first = dict(states=ck.cov.get('states', 0), transitions=ck.cov.get('transitions', 0), traces=ck.cov.get('traces_validated_against_impl', 0))
        bfs2 = HistoryBFS(ck, b['vx'], [make_init_populated('hash1-populated', H1), make_init_populated('hash2-populated', H2, 5), make_init_populated('default-populated', None, 2)], alphabet_for(True), maxdepth=3, reps=1, emit=emit, extra_judge=extra_judge)
        bfs2.run(deadline=time.time() + 3000)
        ck.cov['states'] = ck.cov.get('states', 0) + first['states']; ck.cov['transitions'] = ck.cov.get('transitions', 0) + first['transitions']
        ck.cov['traces_validated_against_impl'] = ck.cov.get('traces_validated_against_impl', 0) + first['traces']
        ck.cov['max_depth'] = 4
    else:
        inits = [make_init('hash1', H1), make_init('default', None, 5), make_init_populated('hash1-populated', H1)]
        bfs = HistoryBFS(ck, b['vx'], inits, alphabet_for(False), maxdepth=3, reps=1, emit=emit, extra_judge=extra_judge)
        bfs.run(deadline=time.time() + 600)
    ck.cov['distinct_nontrivial'] = ck.cov.get('states', 0)
    cc = copy_between_files(thorough)
    cres = runner.run_cases(b['vx'], [x[0] for x in cc], batch=10)
    ncopy = 0
    for (c, ctx), r in zip(cc, cres):
        ck.cov['evaluations'] += 1
        if r.status != 'ok':
            from engine.script import first_frame
            ck.violation((r.status, 'copy_att', first_frame(r.detail)), c.text(), c.name + ': ' + r.detail[:500]); continue
        bad = None
        for (vin, vout, nm, exp, lc, lg, src) in ctx:
            ncopy += 1
            for k in r.ranks:
                rc = r.rc(k, lc)
                ck.outcomes.add(('copy_att', rc))
                if rc not in exp: bad = 'copy_att(src var %d, "%s" -> dst var %d) returned %d on rank %d, expected %s' % (vin, nm, vout, rc, k, sorted(exp)); break
                if lg is not None:
                    g = r.r(k, lg)
                    if g.rc != 0 or g.vals() != src[1]: bad = 'after copy_att(src var %d, "%s" -> dst var %d): target attribute reads %s rc=%d, source holds %s' % (vin, nm, vout, g.vals(), g.rc, src[1]); break
            if bad: break
        if bad: ck.violation(('copy_att', 'two files', 'variable counts differ'), c.text(), c.name + ': ' + bad)
    ck.cov['copy_att_between_files'] = ncopy
    ck.cov['rule'] = ('BFS over def_dim/def_var/put_att (overwrite smaller/equal/larger, other type, zero length)/rename_dim/rename_var/rename_att/copy_att/del_att/enddef/redef/close+open with a name alphabet built to collide '
                      '(hash table sizes 1, 2 and default via hints; started from the empty file and from a populated define-mode session with three attributes per object; composed vs decomposed UTF-8 of one NFC string, names whose byte length shrinks or grows under normalisation renamed in data mode; NC_MAX_NAME); after every transition the full inquiry sweep (objects, ids, order, names, types, lengths, values, '
                      'lookup by name vs by id) is compared with the sequential model; data-mode changes and reopen are also checked in the decoded file header; plus copy_att between two files with different numbers of variables, every (source variable, target variable, name) combination incl. ids valid in one file only')
    ck.assumptions += ['depth bound %d' % bfs.maxdepth]
    runner.cleanup()
    return ck.finish(min_eval=300, min_outcomes=20)


if __name__ == '__main__':
    sys.exit(main(sys.argv[1] if len(sys.argv) > 1 else None))
