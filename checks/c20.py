"""C20 Offline utilities agree with the library and the format — every corpus file x every single edit, tool verdicts vs the independent decoder."""
import itertools, sys, os, re, subprocess, copy, shutil, time
from concurrent.futures import ThreadPoolExecutor
sys.path.insert(0, os.path.dirname(os.path.dirname(os.path.abspath(__file__))))
from engine import build, runner, cdf
from engine.common import Check
from engine.model import data as D
from engine.model.filemodel import DEFAULT_FILL
import checks.c04 as c04

TYPENAME = {1: 'byte', 2: 'char', 3: 'short', 4: 'int', 5: 'float', 6: 'double', 7: 'ubyte', 8: 'ushort', 9: 'uint', 10: 'int64', 11: 'uint64'}
NAME2TYPE = {v: k for k, v in TYPENAME.items()}
ENV = dict(os.environ); ENV.update(runner.MPI_ENV)


def run(cmd, timeout=60):
    try:
        p = subprocess.run(cmd, stdout=subprocess.PIPE, stderr=subprocess.STDOUT, timeout=timeout, env=ENV)
        return p.returncode, p.stdout.decode(errors='replace')
    except subprocess.TimeoutExpired:
        return -999, 'TIMEOUT'


# ------------------------------------------------------------------ CDL as printed by ncmpidump
def unescape(t):
    """C escapes as printed by ncmpidump (octal \\NNN, \\n, \\t, \\", \\\\ ...) -> characters (latin-1 code points)"""
    out = []; i = 0
    simple = {'n': '\n', 't': '\t', 'r': '\r', 'v': '\v', 'f': '\f', 'b': '\b', 'a': '\a', '\\': '\\', '"': '"', "'": "'", '?': '?'}
    while i < len(t):
        ch = t[i]
        if ch != '\\' or i + 1 >= len(t): out.append(ch); i += 1; continue
        nx = t[i + 1]
        if nx in '01234567':
            j = i + 1
            while j < len(t) and j < i + 4 and t[j] in '01234567': j += 1
            out.append(chr(int(t[i + 1:j], 8) & 0xFF)); i = j
        elif nx in 'xX':
            j = i + 2
            while j < len(t) and j < i + 4 and t[j] in '0123456789abcdefABCDEF': j += 1
            out.append(chr(int(t[i + 2:j], 16))); i = j
        else: out.append(simple.get(nx, nx)); i += 2
    return ''.join(out)


def parse_values(txt):
    """list of (value, typehint) ; typehint from suffix / quoting"""
    txt = txt.strip()
    if txt.startswith('"'):
        s = re.findall(r'"((?:[^"\\]|\\.)*)"', txt)
        raw = unescape(''.join(s))
        return [(raw, 'char')]
    out = []
    for tok in [t.strip() for t in txt.split(',') if t.strip()]:
        m = re.match(r'^([-+0-9.eE]+|NaN|[-+]?Infinity|_)(ULL|LL|UB|US|UL|U|L|b|B|s|S|f|F)?$', tok)
        if not m: out.append((tok, '?')); continue
        num, suf = m.group(1), (m.group(2) or '')
        hint = {'b': 'byte', 'B': 'byte', 's': 'short', 'S': 'short', 'f': 'float', 'F': 'float', 'UB': 'ubyte', 'US': 'ushort', 'U': 'uint', 'UL': 'uint', 'L': 'int', 'LL': 'int64', 'ULL': 'uint64'}.get(suf)
        if num == '_': out.append((None, hint or '?')); continue
        if hint is None: hint = 'double' if re.search(r'[.eE]|NaN|Inf', num) else 'int'
        v = float(num) if hint in ('float', 'double') else int(num)
        out.append((v, hint))
    return out


def parse_cdl(text):
    """-> dict(version, dims=[(name,size|None,current)], vars=[(type,name,[dimnames])], gatts=[(name,hint,values)], vatts={var:[...]}, data={var:[values]})"""
    res = dict(version=None, dims=[], vars=[], gatts=[], vatts={}, data={})
    m = re.search(r'// file format: CDF-(\d)', text)
    if m: res['version'] = int(m.group(1))
    body = text
    sec = None
    # join statements: a statement ends with ';' (strings in our corpus contain no ';')
    stmts = []
    cur = ''
    for line in body.split('\n'):
        ls = line.strip()
        if ls.startswith('//') and 'global attributes' in ls: stmts.append('#GATTS'); continue
        if ls in ('dimensions:', 'variables:', 'data:'): stmts.append('#' + ls[:-1].upper()); continue
        if ls.startswith('netcdf ') or ls == '}' or not ls: continue
        if ls.startswith('//'): continue
        cur += ' ' + re.sub(r'//.*$', lambda mm: mm.group(0) if 'currently' in mm.group(0) else '', line)
        if ';' in line:
            stmts.append(cur.strip()); cur = ''
    for st in stmts:
        if st.startswith('#'): sec = st[1:]; continue
        note = ''
        if '//' in st: st, note = st.split('//', 1)
        st = st.strip().rstrip(';').strip()
        if sec == 'DIMENSIONS':
            n, v = [x.strip() for x in st.split('=', 1)]
            if v == 'UNLIMITED':
                cur_n = int(re.search(r'\((\d+) currently', note).group(1)) if 'currently' in note else 0
                res['dims'].append((n, None, cur_n))
            else: res['dims'].append((n, int(v), int(v)))
        elif sec in ('VARIABLES', 'GATTS'):
            m = re.match(r'^((?:[^\s:=(\\]|\\.)*):([^=\s]+)\s*=\s*(.*)$', st, re.S)       # the variable name may be any UTF-8 identifier
            if m and (m.group(1) == '' or '(' not in st.split('=')[0]) and not re.match(r'^(byte|char|short|int|float|double|ubyte|ushort|uint|int64|uint64)\s', st):
                var, an, vals = m.group(1), m.group(2), parse_values(m.group(3))
                (res['gatts'] if var == '' else res['vatts'].setdefault(var, [])).append((an, vals))
            else:
                m = re.match(r'^(\w+)\s+([^\s(]+)\s*(\(([^)]*)\))?$', st)
                if m: res['vars'].append((m.group(1), m.group(2), [x.strip() for x in (m.group(4) or '').split(',') if x.strip()]))
        elif sec == 'DATA':
            n, v = st.split('=', 1)
            res['data'][n.strip()] = parse_values(v)
    return res


def cdl_vs_file(cd, f, data):
    """compare a parsed dump with the decoder's view; returns None or text"""
    if cd['version'] != f.version: return 'format: dump says CDF-%s, file is CDF-%d' % (cd['version'], f.version)
    fd = [(d.name, None if d.size == 0 else d.size) for d in f.dims]
    if [(n, s) for n, s, c in cd['dims']] != fd: return 'dimensions: dump %s, file %s' % (cd['dims'], fd)
    for n, s, c in cd['dims']:
        if s is None and c != f.numrecs: return 'record count: dump %d, file %d' % (c, f.numrecs)
    fv = [(TYPENAME[v.xtype], v.name, [f.dims[d].name for d in v.dimids]) for v in f.vars]
    if cd['vars'] != fv: return 'variables: dump %s, file %s' % (cd['vars'], fv)
    def cmp_atts(where, dumped, atts):
        if [a[0] for a in dumped] != [a.name for a in atts]: return '%s attribute names: dump %s, file %s' % (where, [a[0] for a in dumped], [a.name for a in atts])
        for (an, vals), a in zip(dumped, atts):
            if a.xtype == D.NC_CHAR:
                got = vals[0][0] if vals and vals[0][1] == 'char' else None
                if got is None or got.encode('latin1', 'replace') != bytes(a.values): return '%s attribute %s: dump %r, file %r' % (where, an, vals, bytes(a.values))
            else:
                if len(a.values) == 0:
                    continue          # CDL cannot express the type of an empty attribute
                if [v for v, h in vals] != [x for x in a.values] and not all(isinstance(x, float) and abs(x - v) <= 1e-6 * max(1, abs(x)) for (v, h), x in zip(vals, a.values)):
                    return '%s attribute %s: dump values %s, file %s' % (where, an, [v for v, h in vals], list(a.values))
                want = TYPENAME[a.xtype]
                if any(h != want for v, h in vals): return '%s attribute %s: dump implies type %s, file has %s' % (where, an, sorted(set(h for v, h in vals)), want)
        return None
    r = cmp_atts('global', cd['gatts'], f.gatts)
    if r: return r
    for v in f.vars:
        r = cmp_atts('variable ' + v.name, cd['vatts'].get(v.name, []), v.atts)
        if r: return r
    for i, v in enumerate(f.vars):
        exp = data.get(i, [])
        got = cd['data'].get(v.name)
        if got is None:
            if exp: return 'data of %s missing in dump' % v.name
            continue
        if v.xtype == D.NC_CHAR:
            s = ''.join(x[0] for x in got if x[1] == 'char')
            gb = s.encode('latin1', 'replace'); ex = list(exp)
            # trailing NULs are not printed; elements beyond the end of the file (None) are undefined
            if any(e is not None and (gb[i] if i < len(gb) else 0) != e for i, e in enumerate(ex)) or any(c != 0 for c in gb[len(ex):]):
                return 'data of %s: dump %r, file %r' % (v.name, s, exp)
        else:
            fv = next((a.values[0] for a in v.atts if a.name == '_FillValue' and len(a.values) == 1), DEFAULT_FILL[v.xtype])
            gv = [fv if x[0] is None else x[0] for x in got]        # '_' stands for the fill value
            if len(gv) != len(exp) or any(b is not None and not (a == b or (isinstance(b, float) and a is not None and abs(a - b) <= 1e-6 * max(1, abs(b)))) for a, b in zip(gv, exp)):
                return 'data of %s: dump %s, file %s' % (v.name, gv[:12], exp[:12])
    return None


def roundtrip_diff(lf, lg):
    """differences between two logical views, as short causes"""
    out = []
    for k in ('version', 'numrecs', 'dims'):
        if lf[k] != lg[k]: out.append(k)
    def atts(where, A, B):
        if [a[0] for a in A] != [b[0] for b in B]: out.append(where + ' attribute names'); return
        for a, b in zip(A, B):
            if a == b: continue
            if not a[2] and b[1] == D.NC_CHAR and b[2] == [0]: out.append('zero-length attribute regenerated as one NUL character')
            elif a[1] != b[1]: out.append('attribute type %s becomes %s' % (TYPENAME[a[1]], TYPENAME[b[1]]))
            else: out.append('attribute values of type ' + TYPENAME[a[1]])
    atts('global', lf['gatts'], lg['gatts'])
    if [(v['name'], v['xtype'], v['dimids']) for v in lf['vars']] != [(v['name'], v['xtype'], v['dimids']) for v in lg['vars']]: out.append('variable definitions'); return out
    for a, b in zip(lf['vars'], lg['vars']):
        atts('variable', a['atts'], b['atts'])
        if a['data'] != b['data']:
            if a['data'] and b['data'] and len(a['data']) == len(b['data']) and all(x is None or x == y for x, y in zip(a['data'], b['data'])): continue   # beyond end of file: undefined
            if a['xtype'] == D.NC_CHAR and bytes(a['data'] or []).rstrip(b'\0') == bytes(b['data'] or []).rstrip(b'\0'): continue
            out.append('data of type ' + TYPENAME[a['xtype']])
    return sorted(set(out))


def parse_record_offsets(text):
    """ncoffsets -r : {variable: [(start, end) per record]}"""
    out = {}; cur = None
    for line in text.split('\n'):
        m = re.match(r'^\s+(\w+)\s+([^\s(:]+)(\(.*\))?:\s*$', line)
        if m: cur = m.group(2); continue
        m = re.search(r'(start|end)\s+file offset =\s*(\d+)\s+\((\d+)(?:st|nd|rd|th) record\)', line)
        if m and cur:
            lst = out.setdefault(cur, []); k = int(m.group(3))
            while len(lst) <= k: lst.append([None, None])
            lst[k][0 if m.group(1) == 'start' else 1] = int(m.group(2))
    return out


def parse_offsets(text):
    out = {}
    cur = None
    for line in text.split('\n'):
        m = re.match(r'^\s+(\w+)\s+([^\s(:]+)(\(.*\))?:\s*$', line)
        if m: cur = m.group(2); continue
        m = re.search(r'start file offset =\s*(\d+)', line)
        if m and cur: out.setdefault(cur, [None, None])[0] = int(m.group(1))
        m = re.search(r'end   file offset =\s*(\d+)', line)
        if m and cur: out.setdefault(cur, [None, None])[1] = int(m.group(1))
    return out


# ------------------------------------------------------------------ corpus and edits
def mk_ext(atts=True):
    """CDF-5 file exercising every extended type with extreme values, in variables and attributes"""
    T = cdf
    dims = [T.Dim('t', 0), T.Dim('x', 2)]
    gatts = [T.Att('g_ub', D.NC_UBYTE, [0, 255]), T.Att('g_us', D.NC_USHORT, [65535]), T.Att('g_ui', D.NC_UINT, [4294967295, 7]),
             T.Att('g_ll', D.NC_INT64, [-2 ** 63, 2 ** 53 + 1]), T.Att('g_ull', D.NC_UINT64, [2 ** 64 - 1, 2 ** 63 + 1]), T.Att('g_b', D.NC_BYTE, [-128, 127]),
             T.Att('g_s', D.NC_SHORT, [-32768]), T.Att('g_f', D.NC_FLOAT, [0.5]), T.Att('g_i', D.NC_INT, [-2 ** 31, 2 ** 31 - 1])]
    vars_ = [T.Var('ub', D.NC_UBYTE, [1], [T.Att('a_ll', D.NC_INT64, [5])]), T.Var('us', D.NC_USHORT, [1]), T.Var('ui', D.NC_UINT, [0, 1]),
             T.Var('ll', D.NC_INT64, [1]), T.Var('ull', D.NC_UINT64, [0, 1]), T.Var('sb', D.NC_BYTE, [1])]
    if not atts: gatts = []; vars_[0].atts = []
    f = T.File(5, dims, gatts, vars_, 2)
    data = {0: [0, 254], 1: [65534, 1], 2: [4294967294, 2 ** 31, 1, 2], 3: [-2 ** 63 + 1, 2 ** 53 + 1], 4: [2 ** 64 - 3, 2 ** 63 + 1, 2 ** 53 + 1, 3], 5: [-128, 126]}
    return f, data


def mk_grid(version):
    """variables with several dimensions no shorter than the process counts ncmpidiff is run on: every element is edited"""
    T = cdf
    dims = [T.Dim('t', 0), T.Dim('a', 4), T.Dim('b', 5)]
    vars_ = [T.Var('g', D.NC_INT, [1, 2]), T.Var('r', D.NC_SHORT, [0, 1]), T.Var('h', D.NC_DOUBLE, [2, 1])]
    f = T.File(version, dims, [T.Att('title', D.NC_CHAR, b'grid')], vars_, 4)
    return f, c04.gen_data(f)


def corpus(thorough):
    out = []
    f, data = mk_ext(); cdf.layout(f)
    out.append(('enc-v5-ext', f, data, cdf.encode(f, data)))
    f, data = mk_ext(False); cdf.layout(f)
    out.append(('enc-v5-extdata', f, data, cdf.encode(f, data)))
    for ver in (1, 2, 5):
        for kind in ('minimal', 'fixed', 'record1', 'record2'):
            f = c04.mkfile_schema(ver, kind); cdf.layout(f); data = c04.gen_data(f)
            out.append(('enc-v%d-%s' % (ver, kind), f, data, cdf.encode(f, data)))
    return out


def library_files(vx, thorough):
    """files written by the library itself (a slice of the C03 corpus): the validator must accept every one of them"""
    import checks.c03 as c03
    progs = c03.gen((1, 2, 5), False, (1,))
    progs = progs[::(3 if thorough else 12)]
    res = runner.run_cases(vx, [p.case for p in progs], batch=40)
    out = []
    for p, r in zip(progs, res):
        if r.status != 'ok' or not p.cps: continue
        s = r.r(0, p.cps[-1]['snap'])
        if s is None or s.rc != 0: continue
        out.append((p.case.name, bytes.fromhex(s.get('hex', ''))))
    return out


def relayouts(f, data):
    for k, lay in enumerate([dict(first_gap=8), dict(first_gap=40, var_gaps=[4, 0, 8, 0]), dict(rec_gap=16), dict(vsize_mode='stale'), dict(first_gap=512, rec_gap=4)]):
        g = copy.deepcopy(f)
        lay = dict(lay)
        if 'var_gaps' in lay:
            order = cdf.file_order(g); gaps = (lay['var_gaps'] + [0] * len(order))[:len(order)]
            seen = False
            for i, v in enumerate(order):
                if v.is_record:
                    if seen: gaps[i] = 0
                    seen = True
            lay['var_gaps'] = gaps
        cdf.layout(g, **lay)
        yield 'relayout%d' % k, cdf.encode(g, data, free_fill=0x5A if k % 2 else 0)


def _bump(x):
    return (x - 1 if x > 0 else x + 1) if x == x and abs(x) != float('inf') else 1.0


def logical_edits(f, data, thorough):
    """(label, bytes) each differing from f in exactly one logical item"""
    for i, v in enumerate(f.vars):
        vals = data.get(i, [])
        for k in (range(len(vals)) if thorough else sorted(set([0, len(vals) // 2, len(vals) - 1]) & set(range(len(vals))))):
            d2 = copy.deepcopy(data); d2[i][k] = _bump(d2[i][k] or 0)
            yield 'value-%s[%d]' % (v.name, k), cdf.encode(f, d2)
    def with_att(mod):
        g = copy.deepcopy(f); mod(g); cdf.layout(g); return cdf.encode(g, data)
    for ai, a in enumerate(f.gatts):
        if len(a.values):
            def m(g, ai=ai):
                x = g.gatts[ai]; x.values = (bytes([x.values[0] ^ 1]) + bytes(x.values[1:])) if isinstance(x.values, (bytes, bytearray)) else [_bump(x.values[0])] + list(x.values[1:])
            yield 'gatt-value-%s' % a.name, with_att(m)
        def m2(g, ai=ai): g.gatts[ai].name = g.gatts[ai].name + 'q'; g.gatts[ai].raw_name = None
        yield 'gatt-name-%s' % a.name, with_att(m2)
    for vi, v in enumerate(f.vars):
        def m3(g, vi=vi): g.vars[vi].name = g.vars[vi].name + 'q'; g.vars[vi].raw_name = None
        yield 'var-name-%s' % v.name, with_att(m3)
        for ai, a in enumerate(v.atts):
            if len(a.values):
                def m4(g, vi=vi, ai=ai):
                    x = g.vars[vi].atts[ai]; x.values = (bytes([x.values[0] ^ 1]) + bytes(x.values[1:])) if isinstance(x.values, (bytes, bytearray)) else [_bump(x.values[0])] + list(x.values[1:])
                yield 'vatt-value-%s:%s' % (v.name, a.name), with_att(m4)
    for di, d in enumerate(f.dims):
        def m5(g, di=di): g.dims[di].name = g.dims[di].name + 'q'; g.dims[di].raw_name = None
        yield 'dim-name-%s' % d.name, with_att(m5)
        if d.size > 0:
            g = copy.deepcopy(f); g.dims[di].size = d.size + 1; cdf.layout(g); cdf.compute_shapes(g)
            d2 = {}
            for i, v in enumerate(g.vars):
                n = v.nelems_per_rec_or_total * (g.numrecs if v.is_record else 1)
                d2[i] = (list(data.get(i, [])) + [1] * n)[:n]
            yield 'dim-len-%s' % d.name, cdf.encode(g, d2)
    if any(v.is_record for v in f.vars):
        g = copy.deepcopy(f); g.numrecs = f.numrecs + 1; cdf.layout(g); cdf.compute_shapes(g)
        d2 = {}
        for i, v in enumerate(g.vars):
            n = v.nelems_per_rec_or_total * (g.numrecs if v.is_record else 1)
            d2[i] = (list(data.get(i, [])) + [1] * n)[:n]
        yield 'numrecs+1', cdf.encode(g, d2)
    # same logical content, other format version
    if f.version in (1, 2) and all(v.xtype <= 6 for v in f.vars) and all(a.xtype <= 6 for a in f.gatts):
        g = copy.deepcopy(f); g.version = 2 if f.version == 1 else 1; cdf.layout(g)
        yield 'format-version', cdf.encode(g, data)


def invalid_edits(f, data, raw):
    """header edits that violate the specification"""
    def enc(mod, strictlayout=True):
        g = copy.deepcopy(f); cdf.layout(g); mod(g)
        try: return cdf.encode(g, data)
        except Exception: return None
    if len(f.dims) >= 2 and any(d.size == 0 for d in f.dims):
        i = next(k for k, d in enumerate(f.dims) if d.size != 0)
        # a second unlimited dimension (only if no variable makes it a non-leading dimension: still invalid by itself)
        yield 'second-unlimited', enc(lambda g: setattr(g.dims[i], 'size', 0))
    w = 8 if f.version == 5 else 4
    vi = next((i for i, v in enumerate(f.vars) if v.dimids), None)
    if vi is not None:
        g = copy.deepcopy(f); cdf.layout(g); hdr = cdf.encode_header(g)
        name = g.vars[vi].name.encode()
        key = len(name).to_bytes(w, 'big') + name.ljust((len(name) + 3) // 4 * 4, b'\0') + len(g.vars[vi].dimids).to_bytes(w, 'big')
        pos = hdr.rfind(key)
        if pos > 0 and raw[:len(hdr)] == hdr:
            b = bytearray(raw); q = pos + len(key); b[q:q + w] = (len(f.dims) + 3).to_bytes(w, 'big'); yield 'dimid-out-of-range', bytes(b)
    if f.vars:
        yield 'begin-inside-header', enc(lambda g: setattr(g.vars[0], 'begin', 8))
    fixed = [v for v in f.vars if not v.is_record]
    if len(fixed) >= 2:
        def swap(g):
            fx = [v for v in g.vars if not v.is_record]
            fx[0].begin, fx[1].begin = fx[1].begin, fx[0].begin
        yield 'descending-begins', enc(swap)
    # byte patches
    tagpos = 4 + w          # dim_list tag
    if f.dims:
        b = bytearray(raw); b[tagpos:tagpos + 4] = (0x0D).to_bytes(4, 'big'); yield 'bad-tag', bytes(b)
        # non-null padding after the first dimension name (name length 1 => 3 pad bytes)
        npos = tagpos + 4 + w
        nlen = int.from_bytes(raw[npos:npos + w], 'big')
        if nlen % 4:
            b = bytearray(raw); b[npos + w + nlen] = 0x01; yield 'nonnull-name-padding', bytes(b)
        b = bytearray(raw); cnt = int.from_bytes(raw[tagpos + 4:tagpos + 4 + w], 'big'); b[tagpos + 4:tagpos + 4 + w] = (cnt + 1).to_bytes(w, 'big'); yield 'nelems-too-large', bytes(b)
    if f.gatts:
        # bad nc_type of the first global attribute: locate by re-encoding with a marker type is not possible; patch the type word after the name
        g = copy.deepcopy(f); cdf.layout(g)
        hdr = cdf.encode_header(g)
        name = g.gatts[0].name.encode()
        pos = hdr.find(len(name).to_bytes(w, 'big') + name)
        if pos > 0:
            tpos = pos + w + (len(name) + 3) // 4 * 4
            b = bytearray(raw); b[tpos:tpos + 4] = (12).to_bytes(4, 'big'); yield 'bad-nc_type', bytes(b)
    b = bytearray(raw); b[3] = 3; yield 'bad-version-byte', bytes(b)
    # every single padding byte of the header (names and values of dimensions, variables and attributes, wherever they sit in
    # their lists) set to a non-null value: found by encoding the header twice with different padding
    g = copy.deepcopy(f); cdf.layout(g)
    h0 = cdf.encode_header(g, pad_byte=0); h1 = cdf.encode_header(g, pad_byte=0x5A)
    if len(h0) == len(h1) and raw[:len(h0)] == h0:
        for pos in [i for i in range(len(h0)) if h0[i] != h1[i]]:
            b = bytearray(raw); b[pos] = 0x5A; yield 'nonnull-padding-at-%d' % pos, bytes(b)


def main(tier=None, only=None):
    ck = Check('C20', 'exploration', tier)
    b = build.build('plain', utils=True)
    U = b['utils']
    thorough = ck.tier == 'thorough'
    work = os.path.join(runner.WORKROOT, 'c20-%d' % os.getpid()); os.makedirs(work, exist_ok=True)
    tasks = []      # (kind, label, function)  ; executed in a thread pool
    counter = itertools.count()

    def wfile(raw):
        p = os.path.join(work, 'f%d.nc' % next(counter))
        with open(p, 'wb') as fh: fh.write(raw)
        return p

    viol = []
    def V(sig, label, detail, files=()): viol.append((sig, label, detail, files))

    def t_validate(label, raw, expect_ok):
        p = wfile(raw); rc, out = run([U['ncvalidator'], '-q', p]); os.unlink(p)
        ck.outcomes.add(('ncvalidator', rc == 0))
        if expect_ok and rc != 0: V(('tool', 'ncvalidator', 'rejects a valid file'), label, '%s: ncvalidator exits %d on a file the library wrote / the encoder made: %s' % (label, rc, out[:300]))
        if not expect_ok and rc == 0: V(('tool', 'ncvalidator', 'accepts: ' + re.sub(r'-at-\d+$', '', label.split(':')[-1])), label, '%s: ncvalidator accepts a header that violates the specification' % label)

    def t_diff(label, raw1, raw2, expect_same, nps=(1,)):
        p1, p2 = wfile(raw1), wfile(raw2)
        runs = [('cdfdiff', [U['cdfdiff'], '-q', p1, p2])]
        for n in nps:
            runs.append(('ncmpidiff' if n == 1 else 'ncmpidiff np=%d' % n, ([U['ncmpidiff']] if n == 1 else ['mpirun', '-np', str(n), U['ncmpidiff']]) + ['-q', p1, p2]))
        for tool, cmd in runs:
            rc, out = run(cmd)
            same = (rc == 0 and 'DIFF' not in out.upper().replace('NCMPIDIFF', '').replace('CDFDIFF', ''))
            ck.outcomes.add((tool, same, expect_same))
            kind = label.split(':')[-1].split('-')[0]
            if expect_same and not same: V(('tool', tool, 'reports a difference for a pure layout change'), label, '%s: %s reports a difference (rc=%d) between two encodings of the same content: %s' % (label, tool, rc, out[:300]))
            if not expect_same and same: V(('tool', tool, 'misses a ' + kind + ' difference'), label, '%s: %s reports no difference although the files differ in %s' % (label, tool, label.split(':')[-1]))
        os.unlink(p1); os.unlink(p2)

    def t_dump(label, f, data, raw):
        p = wfile(raw)
        rc, out = run([U['ncmpidump'], p])
        if rc != 0: V(('tool', 'ncmpidump', 'fails'), label, '%s: ncmpidump exits %d: %s' % (label, rc, out[:300])); os.unlink(p); return
        try:
            cd = parse_cdl(out)
            r = cdl_vs_file(cd, f, data)
        except Exception as e:
            r = 'dump not parseable as CDL: %r' % e
        ck.outcomes.add(('ncmpidump', r is None))
        if r: V(('tool', 'ncmpidump', r.split(':')[0]), label, '%s: ncmpidump disagrees with the decoder: %s' % (label, r))
        rc2, out2 = run([U['ncoffsets'], p])
        offs = parse_offsets(out2)
        for v in f.vars:
            o = offs.get(v.name)
            if rc2 != 0 or o is None or o[0] != v.begin or (o[1] is not None and o[1] - o[0] != v.byte_size):
                V(('tool', 'ncoffsets', 'offset or size'), label, '%s: ncoffsets reports %s for %s, decoder finds begin %d size %d' % (label, o, v.name, v.begin, v.byte_size)); break
        ck.outcomes.add(('ncoffsets', rc2))
        # per-record offsets of record variables
        if any(v.is_record for v in f.vars) and f.numrecs > 0:
            rc4, out4 = run([U['ncoffsets'], '-r', p])
            ro = parse_record_offsets(out4)
            for v in f.vars:
                if not v.is_record: continue
                want = [(v.begin + r * f.recsize, v.begin + r * f.recsize + v.byte_size) for r in range(f.numrecs)]
                got = [tuple(x) for x in ro.get(v.name, [])]
                if rc4 != 0 or got != want:
                    V(('tool', 'ncoffsets', 'per-record offsets'), label, '%s: ncoffsets -r reports %s for the records of %s, decoder finds %s' % (label, got[:6], v.name, want[:6])); break
            ck.outcomes.add(('ncoffsets -r', rc4))
        # regenerate from the dump
        cdlp = p + '.cdl'; open(cdlp, 'w').write(out)
        gen = p + '.gen.nc'
        rc3, out3 = run([U['ncmpigen'], '-v', str(f.version), '-o', gen, cdlp])
        ext = any(a.xtype > 6 for a in f.gatts) or any(a.xtype > 6 for v in f.vars for a in v.atts)
        names = [d.name for d in f.dims] + [a.name for a in f.gatts] + [v.name for v in f.vars] + [a.name for v in f.vars for a in v.atts]
        nonascii = any(ord(ch) > 127 for n in names for ch in (n.decode('utf-8', 'replace') if isinstance(n, bytes) else n))
        if rc3 != 0 or not os.path.exists(gen):
            V(('tool', 'ncmpigen', 'cannot parse the dump' + (' (CDF-5 attribute constants)' if ext else ' (non-ASCII names)' if nonascii and 'syntax error' in out3 else '')), label, '%s: ncmpigen fails on the CDL printed by ncmpidump (rc=%d): %s' % (label, rc3, out3[:200]))
        else:
            try:
                g = cdf.decode(open(gen, 'rb').read())
                lf = cdf.logical(cdf.decode(raw)); lg = cdf.logical(g)
                for what in roundtrip_diff(lf, lg):
                    V(('tool', 'ncmpigen', 'round trip: ' + what), label, '%s: file regenerated from its dump differs: %s' % (label, what))
                ck.outcomes.add(('ncmpigen', 'ok'))
            except cdf.CDFError as e:
                V(('tool', 'ncmpigen', 'writes an invalid file'), label, '%s: regenerated file does not decode: %s' % (label, e))
        for x in (p, cdlp, gen):
            if os.path.exists(x): os.unlink(x)

    jobs = []
    libs = library_files(b['vx'], thorough)
    for k, (name, raw) in enumerate(libs):
        jobs.append((t_validate, ('lib:' + name, raw, True)))
        if k % (2 if thorough else 6): continue
        try: f = cdf.decode(raw)
        except cdf.CDFError: continue           # C03's business
        data = {i: list(f.data[i]) for i in f.data if f.data[i] is not None}
        jobs.append((t_dump, ('lib:' + name, f, data, raw)))
        if any(x is None for d in data.values() for x in d): continue       # file ends before the data section does: content undefined, nothing to compare
        for lab, r2 in list(relayouts(f, data))[:2]:
            jobs.append((t_diff, ('lib:' + name + ':' + lab, raw, r2, True)))
        for lab, r2 in itertools.islice(logical_edits(f, data, False), 0, None, 3):
            jobs.append((t_diff, ('lib:' + name + ':' + lab, raw, r2, False)))
    for ver in ((1, 2, 5) if thorough else (2,)):
        f, data = mk_grid(ver); cdf.layout(f); raw = cdf.encode(f, data); name = 'enc-v%d-grid' % ver
        nps = (1, 2, 3, 4) if thorough else (2, 4)
        for lab, r2 in list(relayouts(f, data))[:2]:
            jobs.append((t_diff, (name + ':' + lab, raw, r2, True, nps)))
        for lab, r2 in logical_edits(f, data, True):
            if lab.startswith('value-'): jobs.append((t_diff, (name + ':' + lab, raw, r2, False, nps)))
    for name, f, data, raw in corpus(thorough):
        jobs.append((t_validate, (name, raw, True)))
        jobs.append((t_dump, (name, f, data, raw)))
        for lab, r2 in relayouts(f, data):
            jobs.append((t_validate, (name + ':' + lab, r2, True)))
            jobs.append((t_diff, (name + ':' + lab, raw, r2, True)))
        for lab, r2 in logical_edits(f, data, thorough):
            jobs.append((t_diff, (name + ':' + lab, raw, r2, False)))
        for lab, r2 in invalid_edits(f, data, raw):
            if r2 is not None: jobs.append((t_validate, (name + ':' + lab, r2, False)))
    if only is not None: jobs = [j for j in jobs if j[1][0] == only]
    with ThreadPoolExecutor(max_workers=12) as ex:
        list(ex.map(lambda j: j[0](*j[1]), jobs))
    for sig, label, detail, files in ([] if only is not None else viol): ck.violation(sig, '#!c20 %s\n%s\n# replay: bin/check C20 --replay <this file>  (regenerates the corpus item and edit named above and reruns the tools on it)\n' % (ck.tier, label), detail)
    ck.cov['evaluations'] = len(jobs)
    ck.cov['by_kind'] = {k: sum(1 for j in jobs if j[0].__name__ == k and (k != 't_validate' or j[1][2])) for k in ('t_validate', 't_diff', 't_dump')}
    ck.cov['by_kind']['t_validate_invalid'] = sum(1 for j in jobs if j[0].__name__ == 't_validate' and not j[1][2])
    ck.cov['invalid_kinds'] = sorted(set(j[1][0].split(':')[-1] for j in jobs if j[0].__name__ == 't_validate' and not j[1][2]))
    ck.cov['library_files'] = len(libs)
    ck.cov['distinct_nontrivial'] = len(set(j[1][0] for j in jobs))
    ck.cov['rule'] = ('corpus = 12 encoder-made files (3 formats x 4 schemas) + a slice of the library-written C03 files; per file: ncvalidator accepts it and every pure layout re-encoding; ncvalidator rejects each specification-violating '
                      'single header edit (bad tag, non-null name padding, entry count too large, second unlimited dimension, dimid out of range, begin inside header, descending begins, bad nc_type, bad version byte); cdfdiff and ncmpidiff report '
                      'equality for layout re-encodings and a difference for every single logical edit (each/representative element of each variable, each attribute value, each name, each dimension length, the record count, the format version); '
                      'ncmpidump parsed as CDL equals the decoder\'s view; ncoffsets equals decoded begins and sizes, ncoffsets -r the start and end of every record; ncmpigen(ncmpidump(f)) decodes to the same logical content')
    ck.sample('ncvalidator -q f ; cdfdiff -q f f\' ; mpirun -np 1 ncmpidiff -q f f\' ; ncmpidump f | ncmpigen -o g ; ncoffsets f   (corpus item enc-v1-record2 etc.)')
    shutil.rmtree(work, ignore_errors=True)
    runner.cleanup()
    if only is not None:
        print('replayed %d tool runs on %s: %d disagreement(s)' % (len(jobs), only, len(viol)))
        for sig, label, detail, files in viol: print('  ', detail)
        return 1 if viol else 0
    return ck.finish(min_eval=100, min_outcomes=6)


def replay(path):
    head = open(path).read().split('\n')
    return main(head[0].split()[1], only=head[1].strip())


if __name__ == '__main__':
    sys.exit(main(sys.argv[1] if len(sys.argv) > 1 else None))
