"""C12 Burst-buffer driver is transparent — the same programs under ncbbio and ncmpio, differential + model."""
import itertools, sys, os
sys.path.insert(0, os.path.dirname(os.path.dirname(os.path.abspath(__file__))))
from engine import build, runner, cdf
from engine.common import Check
from engine.script import Script, first_frame
from engine.model import data as D

W = 8   # ints of the fixed variable owned by each rank


def bb_hints(flush, shared, delc):
    h = 'nc_burst_buf=enable;nc_burst_buf_dirname=@W@bb;nc_burst_buf_flush_buffer_size=%d' % flush
    h += ';nc_burst_buf_shared_logs=%s' % ('enable' if shared else 'disable')
    h += ';nc_burst_buf_del_on_close=%s' % ('enable' if delc else 'disable')
    return h


WRITES = ['put_coll', 'put_vars_rec', 'put_indep', 'iput_wait', 'bput_wait', 'varn', 'convert', 'var1_short', 'iput_varn', 'asym', 'iput_read_put_cancel']
SYNCS = ['none', 'sync', 'flush', 'wait_all', 'redef', 'reopen', 'iget_wait']


def do_write(s, kind, r, tag):
    """rank r performs its part of write `kind`; disjoint regions per kind so that no element is written twice between flushes"""
    np = s.np
    if kind == 'put_coll': s.put(r, 0, [W * r], [2], None, form='vara', coll=1, tag=tag)
    elif kind == 'put_indep': s.put(r, 0, [W * r + 2], [2], None, form='vara', coll=0, tag=tag)
    elif kind == 'iput_wait':
        ln, idx, vals = s.put(r, 0, [W * r + 4], [2], None, form='vara', nb='i', req=r, tag=tag, update=False)
        s.op(r, 'wait', f=0, ids=['q%d' % r], all=1); s.model.put_idx(0, idx, vals)
    elif kind == 'bput_wait':
        ln, idx, vals = s.put(r, 1, [0, 2 * r], [1, 2], None, form='vara', nb='b', req=8 + r, tag=tag, update=False)
        s.op(r, 'wait', f=0, ids=['q%d' % (8 + r)], all=1); s.model.put_idx(1, idx, vals)
    elif kind == 'convert': s.put(r, 0, [W * r + 6], [2], None, form='vara', coll=1, mem='double', tag=tag)
    elif kind == 'put_vars_rec': s.put(r, 1, [1, 2 * r], [2, 1], [2, 1], form='vars', coll=1, tag=tag)       # records 1 and 3
    elif kind == 'varn': s.put(r, 1, form='varn', boxes=[([2, 2 * r], [1, 2]), ([4, 2 * r + 1], [1, 1])], coll=1, tag=tag)
    elif kind == 'var1_short': s.put(r, 2, [5 + r], None, None, form='var1', coll=1, tag=tag)
    elif kind == 'iput_varn':
        ln, idx, vals = s.put(r, 1, form='varn', boxes=[([6, 2 * r], [2, 1]), ([7, 2 * r + 1], [1, 1])], nb='i', req=16 + r, tag=tag, update=False)
        s.op(r, 'wait', f=0, ids=['q%d' % (16 + r)], all=1); s.model.put_idx(1, idx, vals)
    elif kind == 'iput_read_put_cancel':
        # a pending write, flushed as a side effect of a read, then a newer write, then cancel of the old request: the old
        # request is either flushed (burst buffer: NC_EFLUSHED) or cancelled (default driver) - its elements are undefined
        # for the comparison - but the newer write must survive in both
        var = s.model.vars[2]
        ln, idx, vals = s.put(r, 2, [12 + np + 2 * r], [1], None, form='vara', nb='i', req=24 + r, tag=tag, update=False)
        s.op(r, 'get', expect_rc=None, f=0, form='vara', v=0, s=[W * r], c=[1], coll=0 if s.indep else 1, mem='int')
        s.put(r, 2, [13 + np + 2 * r], [1], None, form='vara', coll=0 if s.indep else 1, tag=tag + 1)
        s.op(r, 'cancel', expect_rc=None, f=0, ids=['q%d' % (24 + r)], all=0)
        for i in idx: var.vals.pop(i, None)
        s.model.numrecs = max(s.model.numrecs, 13 + np + 2 * r + 1)
    elif kind == 'asym':
        # only the last process appends (the others take part with nothing): the record count must still agree everywhere
        if r == np - 1: s.put(r, 2, [9 + np], [1], None, form='vara', coll=1, tag=tag)
        else: s.op(r, 'put', f=0, form='vara', v=2, s=[0], c=[0], coll=1, mem='short')


INDEP_KINDS = ('put_indep',)


def gen(nps, configs, pairs, syncs, driver='bb'):
    scripts = []
    for np, (flush, shared, delc), (w1, w2), sy in itertools.product(nps, configs, pairs, syncs):
        if sy == 'reopen' and not delc: continue      # retained logs of the first session would collide with the second one (same directory): not a transparent-use scenario
        hints = bb_hints(flush, shared, delc) if driver == 'bb' else None
        dims = [('t', None), ('x', W * np), ('y', 2 * np)]
        vars_ = [('f', D.NC_INT, [1]), ('r', D.NC_INT, [0, 2]), ('s', D.NC_SHORT, [0])]
        s = Script('BB-%s-np%d-fl%d-sh%d-del%d-%s-%s-%s' % (driver, np, flush, shared, delc, w1, w2, sy), np, 2, dims, vars_, hints=None, define=False)
        s.meta = dict(key=(np, w1, w2, sy), cfg=(flush, shared, delc), driver=driver)
        s.op('*', 'mkdir', path='bb')
        s.op('*', 'create', f=0, path='a.nc', fmt=2, hints=hints)
        s.op('*', 'def_dim', name='t', unlim=1); s.op('*', 'def_dim', name='x', len=W * np); s.op('*', 'def_dim', name='y', len=2 * np)
        s.op('*', 'def_var', name='f', xtype='int', dims=[1]); s.op('*', 'def_var', name='r', xtype='int', dims=[0, 2]); s.op('*', 'def_var', name='s', xtype='short', dims=[0])
        s.op('*', 'enddef')
        s.op('*', 'buffer_attach', size=4096)
        s.indep = False
        tag = 1
        for wi, w in enumerate((w1, w2)):
            if w is None: continue
            if w in INDEP_KINDS: s.op('*', 'begin_indep')
            for r in range(np): do_write(s, w, r, tag + r)
            tag += 10
            # (i) a rank reads back its own earlier writes, before any explicit flush
            if w == 'put_coll':
                for r in range(np): s.get(r, 0, [W * r], [2], None, form='vara', coll=1, what='own write before flush')
            if w == 'put_indep':
                for r in range(np): s.get(r, 0, [W * r + 2], [2], None, form='vara', coll=0, what='own write before flush (indep)')
            if w in INDEP_KINDS: s.op('*', 'end_indep')
            if wi == 0:
                if sy == 'sync': s.op('*', 'sync')
                elif sy == 'flush': s.op('*', 'flush')
                elif sy == 'wait_all': s.op('*', 'wait', f=0, kind='ALL', all=1)
                elif sy == 'redef': s.op('*', 'redef'); s.op('*', 'put_att', f=0, v=-1, name='a', xtype='int', n=1, vals=[1]); s.op('*', 'enddef')
                elif sy == 'reopen':
                    s.op('*', 'buffer_detach'); s.op('*', 'close', f=0); s.op('*', 'open', f=0, path='a.nc', write=1, hints=hints); s.op('*', 'buffer_attach', size=4096)
                elif sy == 'iget_wait':
                    # a wait whose explicit list names read requests only: each process reads its own earlier writes back through iget + wait_all
                    for r in range(np):
                        # records of its own columns this process has written itself (before a flush point a process need not know the others' appends)
                        own = [i // (2 * np) for i, x in s.model.vars[1].vals.items() if x is not None and i % (2 * np) in (2 * r, 2 * r + 1)]
                        reqs = [(0, [W * r], [W])] + ([(1, [0, 2 * r], [max(own) + 1, 2])] if own else [])
                        for q, (v, st, ct) in enumerate(reqs):
                            s.op(r, 'get', f=0, form='vara', v=v, s=st, c=ct, mem='int', nb='i', req=32 + 2 * r + q)
                        s.op(r, 'wait', f=0, ids=['q%d' % (32 + 2 * r + q) for q in range(len(reqs))], all=1)
                        for q, (v, st, ct) in enumerate(reqs):
                            exp = [s.model.vars[v].vals.get(i) for i in D.region_indices(s.model.vars[v].shape if not s.model.vars[v].isrec else [s.model.numrecs] + list(s.model.vars[v].shape[1:]), st, ct, None)]
                            lr = s.op(r, 'rbuf', req=32 + 2 * r + q)
                            def chk(o, rk, lr=lr, exp=exp, v=v):
                                i = D.cmp_lists(exp, o.vals())
                                if i >= 0: return (('value', 'iget', 'own writes read through iget + wait on read ids only'), 'line %d rank %d: var %d element %d of the read buffer is %r, written before: %r' % (lr, rk, v, i, o.vals()[i], exp[i]))
                            s.add_expect(lr, chk)
                if sy not in ('none', 'iget_wait'):
                    # (ii) every rank sees every earlier write of every rank and the same record count
                    s.op('*', 'barrier')
                    for v in range(3): s.get_all('*', v, coll=1, what='all ranks after ' + sy)
                    ln = s.op('*', 'inq_unlimlen', f=0)
                    nr = s.model.numrecs
                    s.add_expect(ln, lambda o, rk, ln=ln, nr=nr: None if int(o.get('len', -1)) == nr else (('numrecs', 'burst buffer', 'after flush point'), 'line %d rank %d: record count %s, expected %d' % (ln, rk, o.get('len'), nr)))
        s.op('*', 'buffer_detach')
        s.op('*', 'close', f=0)
        s.op('*', 'barrier')
        ll = s.op(0, 'lsdir', path='bb')
        if driver == 'bb':
            def chk(o, rk, delc=delc, np=np, shared=shared):
                names = [x for x in (o.get('names') or '').split(',') if x]
                if delc and names: return (('log_files_left', 'close', 'del_on_close=enable'), 'log directory still holds %s after close' % names)
                if not delc and not names: return (('log_files_missing', 'close', 'del_on_close=disable'), 'retention requested but the log directory is empty')
            s.add_expect(ll, chk, [0])
        # (iii) destination file as under the default driver: reopen with ncmpio, read everything, decode
        s.op('*', 'open', f=0, path='a.nc', write=0)
        for v in range(3): s.get_all('*', v, coll=1, what='after close, default driver')
        s.op('*', 'close', f=0)
        s.op('*', 'barrier')
        sn = s.op(0, 'snap', path='a.nc'); s.snapline = sn
        model = s.model; snap = [(list(model.get_all(v))) for v in range(3)]; numrecs = model.numrecs
        def chkf(o, rk, snap=snap, numrecs=numrecs):
            try: f = cdf.decode(bytes.fromhex(o.get('hex', '')), with_data=True, strict=True)
            except (cdf.CDFError, ValueError) as e: return (('decode', 'file', 'burst buffer'), 'destination file does not decode: %s' % e)
            if f.numrecs != numrecs: return (('numrecs', 'file', 'burst buffer'), 'file numrecs %d, model %d' % (f.numrecs, numrecs))
            for v, exp in enumerate(snap):
                got = list(f.data.get(v) or []); got += [None] * (len(exp) - len(got))
                i = D.cmp_lists(exp, got[:len(exp)])
                if i >= 0: return (('value', 'file', 'burst buffer'), 'destination file var %d element %d is %r, model %r' % (v, i, got[i], exp[i]))
        s.add_expect(sn, chkf, [0])
        s.op('*', 'ledger', expect_rc=None)
        scripts.append(s)
    return scripts


def gen_blocksize(nps=(2,)):
    """log entries that end just below / exactly at / just above the 8 MiB block size of the log files (shared logs interleave
    the processes' logical logs in blocks of that size): nothing of such an entry may be lost"""
    from engine.runner import Case
    BS = 8388608; HDR = 8
    cases = []
    for np in nps:
        for shared in (1, 0):
            for n in ((BS - HDR) // 8 - 1, (BS - HDR) // 8, (BS - HDR) // 8 + 1, (2 * BS - HDR) // 8):
                c = Case('BBBLK-np%d-sh%d-n%d' % (np, shared, n), np, opts=dict(tlimit=60))
                L = n + 8
                c.op('*', 'mkdir', path='bb')
                c.op('*', 'create', f=0, path='a.nc', fmt=5, hints=bb_hints(0, shared, 1))
                c.op('*', 'def_dim', f=0, name='x', len=L * np); c.op('*', 'def_var', f=0, name='v', xtype='double', dims=[0]); c.op('*', 'def_var', f=0, name='w', xtype='int', dims=[0])
                c.op('*', 'enddef', f=0)
                for r in range(np):
                    c.op(r, 'put', f=0, form='vara', v=0, s=[L * r], c=[n], coll=1, mem='double', tag=3 + r, scale=1)
                    c.op(r, 'put', f=0, form='vara', v=1, s=[L * r], c=[4], coll=1, mem='int', tag=9 + r, scale=1)
                c.op('*', 'close', f=0); c.op('*', 'barrier')
                ll = c.op(0, 'lsdir', path='bb')
                c.op('*', 'open', f=0, path='a.nc', write=0)
                ctx = []
                for r in range(np):
                    for off in (0, n // 2, n - 3):
                        ctx.append((c.op('*', 'get', f=0, form='vara', v=0, s=[L * r + off], c=[3], coll=1, mem='double'), 3 + r, off))
                    ctx.append((c.op('*', 'get', f=0, form='vara', v=1, s=[L * r], c=[4], coll=1, mem='int'), 9 + r, None))
                c.op('*', 'close', f=0); c.op(0, 'unlink', path='a.nc')
                cases.append((c, ctx, ll))
    return cases


def masked_logical(s, r):
    """logical file content with every element the model does not define masked (undefined content is never compared)"""
    img = cdf.logical(cdf.decode(bytes.fromhex(r.r(0, s.snapline).get('hex', ''))))
    for v, vd in enumerate(img.get('vars', [])):
        defined = s.model.vars[v].vals
        if vd.get('data') is not None: vd['data'] = [x if i in defined else '_' for i, x in enumerate(vd['data'])]
    return img


def main(tier=None):
    ck = Check('C12', 'exploration', tier)
    b = build.build('plain')
    thorough = ck.tier == 'thorough'
    ENTRY = 8   # bytes of one 2-int log entry payload
    if thorough:
        configs = [(fl, sh, de) for fl in (ENTRY, ENTRY + 1, 3 * ENTRY, 0) for sh in (0, 1) for de in (1, 0)]
        pairs = [(a, c) for a in WRITES for c in WRITES if a != c] + [(a, None) for a in WRITES]
        nps = (1, 2, 3); syncs = SYNCS
    else:
        configs = [(ENTRY, 0, 1), (ENTRY + 1, 1, 0), (0, 0, 1), (3 * ENTRY, 1, 1), (ENTRY + 4, 0, 0)]
        pairs = [('put_coll', 'put_vars_rec'), ('iput_wait', 'varn'), ('put_indep', 'convert'), ('bput_wait', 'var1_short'), ('varn', 'put_coll'), ('put_vars_rec', 'iput_wait'), ('convert', 'bput_wait'), ('var1_short', 'put_indep'),
                 ('iput_varn', 'asym'), ('asym', 'put_coll'), ('iput_read_put_cancel', 'put_coll'), ('varn', 'iput_read_put_cancel'), ('put_indep', 'iput_varn'), ('varn', 'asym')]
        nps = (1, 2); syncs = ['none', 'sync', 'flush', 'wait_all', 'redef', 'reopen', 'iget_wait']
    bb = gen(nps, configs, pairs, syncs, 'bb')
    ref = gen(nps, [(0, 0, 1)], pairs, syncs, 'ref')
    res = runner.run_cases(b['vx'], [s.case for s in bb + ref], batch=30)
    refimg = {}
    for s, r in zip(ref, res[len(bb):]):
        for sig, detail in s.judge(r): ck.violation(('reference-run',) + tuple(sig)[1:], s.case.text(), s.case.name + ' (default driver): ' + detail)
        if r.status == 'ok':
            try: refimg[s.meta['key']] = masked_logical(s, r)
            except Exception: pass
    for s, r in zip(bb, res[:len(bb)]):
        ck.cov['evaluations'] += 1
        if r.detail.startswith('FLAKE'): ck.flakes += 1
        for sig, detail in s.judge(r): ck.violation(sig, s.case.text(), s.case.name + ': ' + detail)
        if r.status == 'ok':
            try:
                img = masked_logical(s, r)
                ck.outcomes.add(str(img)[:4000])
                if s.meta['key'] in refimg and img != refimg[s.meta['key']]:
                    ck.violation(('differs_from_default_driver', 'file', 'logical content'), s.case.text(), s.case.name + ': decoded destination file differs from the same program under the default driver')
            except Exception: pass
    blk = gen_blocksize()
    kres = runner.run_cases(b['vx'], [x[0] for x in blk], batch=2, timeout=600)
    for (c, ctx, ll), r in zip(blk, kres):
        ck.cov['evaluations'] += 1
        if r.status != 'ok':
            from engine.script import first_frame
            ck.violation((r.status, 'log block size', first_frame(r.detail)), c.text(), c.name + ': ' + r.detail[:500]); continue
        bad = None
        for ln, tag, off in ctx:
            for k in r.ranks:
                o = r.r(k, ln)
                want = [D.gen(tag, (off or 0) + j, 1) for j in range(3 if off is not None else 4)]
                if o is None or o.rc != 0 or [int(x) for x in o.vals()] != want: bad = 'rank %d reads %s at offset %s of the region written with tag %d, expected %s' % (k, o.vals() if o is not None else None, off, tag, want); break
            if bad: break
        names = [x for x in (r.r(0, ll).get('names') or '').split(',') if x]
        if not bad and names: bad = 'log directory still holds %s after close' % names
        if bad: ck.violation(('value', 'log block size', 'entry ends at a multiple of the log block size'), c.text(), c.name + ': ' + bad)
        ck.outcomes.add(('blk', c.name))
    ck.cov['distinct_nontrivial'] = len(ck.outcomes)
    ck.cov['rule'] = ('programs = ordered pairs of write kinds {blocking collective, strided record put, independent put, iput+wait, bput+wait, put_varn, iput_varn+wait, converting put, put_var1 short record, a record appended by the last process only} with a flush point {none, sync, flush, '
                      'wait_all, redef, close+reopen} between them x flush-buffer size {one entry, one entry + 1 byte, one and a half entries, three entries, unlimited} x shared/per-process logs x del_on_close x np; each program also runs under the default '
                      'driver; own writes are read back before any flush, all writes and the record count on every rank after every flush point, the decoded destination file is compared with the model and with the default-driver '
                      'file, and the log directory is listed after close; plus log entries ending just below / at / above the 8 MiB log block size with shared and per-process logs on 2 processes')
    ck.sample(bb[0].case.text()[:2000])
    ck.assumptions += ['no element is written twice between flushes (documented limitation)', 'np <= 3']
    runner.cleanup()
    return ck.finish(min_eval=50, min_outcomes=5)


if __name__ == '__main__':
    sys.exit(main(sys.argv[1] if len(sys.argv) > 1 else None))
