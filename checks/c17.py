"""C17 File handles and library resources have a clean lifecycle — BFS over id histories + resource ledger."""
import sys, os, time, copy, json
sys.path.insert(0, os.path.dirname(os.path.dirname(os.path.abspath(__file__))))
from engine import build, runner
from engine.common import Check
from engine.runner import Case
from engine.bfs import emit_std, cmp_sweep, desc
from engine.script import first_frame
from engine.model.filemodel import FileModel, DEF_NEW, COLL, CLOSED
from engine.model import data as D

PATHS = ['p0.nc', 'p1.nc', 'p2.nc']
STALE = [-1, 1023, 1024, 1000000]
NC_MAX_NFILES = 1024


class World:
    """ids -> open files (first-free slot allocation), disk -> closed files"""
    def __init__(self):
        self.open = {}      # id -> [path, FileModel]
        self.disk = {}      # path -> FileModel (as closed)  ; 'junk' is a non-netCDF file created by setup
        self.ever = []      # ids ever returned
    def clone(self): return copy.deepcopy(self)
    def canon(self):
        return json.dumps([sorted((i, p, m.canon()) for i, (p, m) in self.open.items()), sorted((p, m.canon()) for p, m in self.disk.items()), sorted(self.ever)])
    def free_id(self):
        i = 0
        while i in self.open: i += 1
        return i
    def ids(self): return sorted(set(self.ever) | set(STALE))

    def apply(self, o):
        """returns (acceptable rcs, staged world, expected new ncid or None)"""
        w = self.clone(); k = o['op']
        if k == 'create':
            p = o['path']
            if o.get('noclobber') and p in w.disk: return {D.NC_EEXIST}, None, None
            i = w.free_id(); m = FileModel(1)
            w.open[i] = [p, m]; w.disk.pop(p, None)
            if i not in w.ever: w.ever.append(i)
            return {0}, w, i
        if k == 'open':
            p = o['path']
            if p == 'junk': return {D.NC_ENOTNC}, None, None
            if p not in w.disk: return {D.NC_ENOENT}, None, None
            i = w.free_id(); m = copy.deepcopy(w.disk[p]); m.mode = COLL; m.rdonly = not o.get('write')
            for v in m.vars: v['nofill'] = None
            w.open[i] = [p, m]
            if i not in w.ever: w.ever.append(i)
            return {0}, w, i
        i = o['id']
        if i not in w.open: return {D.NC_EBADID}, None, None
        p, m = w.open[i]
        rcs, st = m.apply(o['fop'])
        if st is None: return rcs, None, None
        if st.mode == CLOSED:
            del w.open[i]
            if o['fop']['op'] == 'abort' and getattr(st, 'removed', False): w.disk.pop(p, None)
            else:
                st.pending = []; st.abuf = None
                w.disk[p] = st
        else: w.open[i][1] = st
        return rcs, w, None


FOPS = [dict(op='sweep'), dict(op='def_dim', name='d', len=2), dict(op='enddef'), dict(op='redef'), dict(op='sync'),
        dict(op='put_att', v=-1, name='a', xtype=D.NC_INT, vals=[3]), dict(op='buffer_attach', size=32),
        dict(op='ipost', kind='iget', v=0, start=[0], count=[1], slot=5, bad='varid'), dict(op='close'), dict(op='abort')]


def alphabet(w):
    A = []
    for p in PATHS:
        if not any(q == p for q, _ in w.open.values()):
            A.append(dict(op='create', path=p))
            if p in w.disk: A.append(dict(op='open', path=p, write=1)); A.append(dict(op='open', path=p, write=0)); A.append(dict(op='create', path=p, noclobber=1))
            else: A.append(dict(op='open', path=p, write=0))
    A.append(dict(op='open', path='junk', write=0))
    for i in w.ids():
        for f in FOPS: A.append(dict(op='on', id=i, fop=f))
    return A


def emit(c, o):
    k = o['op']
    if k == 'create': return c.op('*', 'create', f=9, path=o['path'], fmt=1, noclobber=1 if o.get('noclobber') else None)
    if k == 'open': return c.op('*', 'open', f=9, path=o['path'], write=1 if o.get('write') else 0)
    ln = emit_std(c, '*', o['fop'], None)
    c.ops[-1] = c.ops[-1].replace(' f=0', ' ncid=%d' % o['id'], 1)
    return ln


def odesc(o):
    if o['op'] == 'on': return '%s@%d' % (desc(o['fop']), o['id'])
    return desc(o)


def build_case(hist, o, world, idx):
    c = Case('C17-d%d-%d' % (len(hist), idx), 1)
    c.op('*', 'mkfile', path='junk', hex='00112233445566778899aabbccddeeff')
    hl = [emit(c, h) for h in hist]
    lo = emit(c, o)
    # observe every file the model says is open: its own sweep must match its own model (no cross-file effects)
    rcs, st, newid = world.apply(o)
    return c, hl, lo


def run_bfs(ck, b, np, maxdepth, deadline):
    seen = {}; w0 = World()
    frontier = [([], [], w0)]; seen[w0.canon()] = 1
    states = 1; trans = 0; maxd = 0; completed = 0
    for depth in range(maxdepth):
        if time.time() > deadline: ck.cov['exhaustive'] = False; break
        jobs = []
        for hist, rcs_h, w in frontier:
            for o in alphabet(w):
                c = Case('C17-np%d-d%d-%d' % (np, depth, len(jobs)), np)
                c.op('*', 'mkfile', path='junk', hex='00112233445566778899aabbccddeeff')
                hl = [emit(c, h) for h in hist]
                lo = emit(c, o)
                rcs, st, newid = w.apply(o)
                # after the op: sweep every file that may be open according to either outcome, then close them all and check the ledger
                obs = []
                pre = w
                post = st if st is not None else w
                for i in sorted(post.open): obs.append((i, c.op('*', 'sweep', ncid=i, nomfp=None)))
                cl = [(i, c.op('*', 'close', ncid=i)) for i in sorted(post.open)]
                led = c.op('*', 'ledger')
                nfo = c.op('*', 'inq_files_opened')
                jobs.append((hist, rcs_h, w, o, c, hl, lo, rcs, st, newid, obs, cl, led, nfo))
        if not jobs: break
        results = runner.run_cases(b['vx'], [j[4] for j in jobs], batch=200)
        nxt = []
        for (hist, rcs_h, w, o, c, hl, lo, rcs, st, newid, obs, cl, led, nfo), r in zip(jobs, results):
            trans += 1; ck.cov['evaluations'] += 1
            text = c.text(); name = '%s after [%s]' % (odesc(o), ' ; '.join(odesc(h) for h in hist))
            if r.status != 'ok':
                ck.violation((r.status, o.get('fop', o)['op'], 'stale id' if (o['op'] == 'on' and o['id'] not in w.open) else first_frame(r.detail)), text, name + ': ' + r.detail[:600]); continue
            if any(r.rc(0, ln) != rc for ln, rc in zip(hl, rcs_h)):
                ck.violation(('replay_divergence', 'harness', 'prefix'), text, name + ': history replay returned other codes'); continue
            rc = r.rc(0, lo)
            ck.outcomes.add((o.get('fop', o)['op'], rc, o['op'] == 'on' and o['id'] in w.open))
            if rc not in rcs:
                ck.violation(('rc', o.get('fop', o)['op'], 'stale id' if (o['op'] == 'on' and o['id'] not in w.open) else 'open id'), text, name + ': rc=%d, model %s' % (rc, sorted(rcs))); continue
            accepted = st is not None and (rc == 0 or (o['op'] == 'on' and o['fop']['op'] in ('close', 'abort')))
            nw = st if accepted else w
            if accepted and newid is not None and int(r.r(0, lo).get('ncid', -99)) != newid:
                ck.violation(('id_allocation', o['op'], 'first free slot'), text, name + ': returned ncid %s, model expects %d' % (r.r(0, lo).get('ncid'), newid)); continue
            bad = False
            for i, ln in obs:
                if i not in nw.open: continue
                d = cmp_sweep(nw.open[i][1], r.r(0, ln).json())
                if d:
                    ck.violation(('state', o.get('fop', o)['op'], 'other file affected' if (o['op'] != 'on' or o.get('id') != i) else 'own file'), text, name + ': file id %d: %s' % (i, d)); bad = True; break
            if bad: continue
            for i, ln in cl:
                if i in nw.open:
                    exp = {D.NC_EPENDING} if nw.open[i][1].pending else {0}
                    if r.rc(0, ln) not in exp:
                        ck.violation(('rc', 'close', 'final close'), text, name + ': final close of id %d returned %d, expected %s' % (i, r.rc(0, ln), sorted(exp))); bad = True; break
            if bad: continue
            L = r.r(0, led)
            if L is not None and (any(L.get(k) != '0' for k in ('malloc', 'types', 'comms', 'infos', 'files', 'reqs')) or r.r(0, nfo).get('n') != '0' or any(r.r(k, led) is not None and any(r.r(k, led).get(x) != '0' for x in ('malloc', 'types', 'comms', 'infos', 'files', 'reqs')) for k in r.ranks)):
                ck.violation(('leak', o.get('fop', o)['op'], ','.join(k for k in ('malloc', 'types', 'comms', 'infos', 'files', 'reqs') if L.get(k) != '0')), text,
                             name + ': after closing every file: %s open=%s' % ({k: L.get(k) for k in ('malloc', 'types', 'comms', 'infos', 'files', 'reqs')}, r.r(0, nfo).get('n'))); continue
            key = nw.canon()
            if key not in seen:
                seen[key] = 1; states += 1
                nxt.append((hist + [o], rcs_h + [rc], nw)); maxd = max(maxd, len(hist) + 1)
            if len(ck.cov['samples']) < 3 and len(hist) >= 2: ck.sample(text[:1200])
        frontier = nxt; completed = depth + 1
    return states, trans, maxd, completed


def main(tier=None):
    ck = Check('C17', 'model_checking', tier)
    b = build.build('plain')
    thorough = ck.tier == 'thorough'
    maxdepth = 6 if thorough else 4
    states, trans, maxd, completed = run_bfs(ck, b, 1, maxdepth, time.time() + (1500 if thorough else 240))
    if thorough:
        s2, t2, _, _ = run_bfs(ck, b, 2, 3, time.time() + 600)
        states += s2; trans += t2
    # ---- the NC_MAX_NFILES boundary: 1024 files open at once, the 1025th refused, a freed slot is reissued
    c = Case('C17-maxfiles', 1)
    lines = []
    for i in range(NC_MAX_NFILES): lines.append(c.op('*', 'create', f=i, path='m%d.nc' % i, fmt=1))
    over = c.op('*', 'create', f=1050, path='over.nc', fmt=1)
    c.op('*', 'mkfile', path='seed.nc', hex='434446010000000000000000000000000000000000000000000000000000000000')
    over2 = c.op('*', 'open', f=1052, path='seed.nc', write=0, hints='nc_var_align_size=8')
    cl1 = c.op('*', 'close', ncid=500)
    again = c.op('*', 'create', f=1051, path='again.nc', fmt=1)
    for i in range(NC_MAX_NFILES): c.op('*', 'close', ncid=i)
    led = c.op('*', 'ledger'); nfo = c.op('*', 'inq_files_opened')
    r = runner.run_cases(b['vx'], [c], timeout=600)[0]
    ck.cov['evaluations'] += 1; trans += NC_MAX_NFILES + 3
    if r.status != 'ok': ck.violation((r.status, 'create', 'NC_MAX_NFILES'), c.text(), 'max files case: ' + r.detail[:500])
    else:
        ids = [int(r.r(0, ln).get('ncid')) for ln in lines]
        if ids != list(range(NC_MAX_NFILES)) or any(r.rc(0, ln) != 0 for ln in lines): ck.violation(('max_files', 'create', 'ids'), c.text(), '1024 creates did not yield ids 0..1023')
        elif r.rc(0, over2) != D.NC_ENFILE: ck.violation(('max_files', 'open', '1025th'), c.text(), 'open with a full table rc=%d, expected NC_ENFILE' % r.rc(0, over2))
        elif r.rc(0, over) != D.NC_ENFILE: ck.violation(('max_files', 'create', '1025th'), c.text(), '1025th create rc=%d, expected NC_ENFILE' % r.rc(0, over))
        elif r.rc(0, again) != 0 or int(r.r(0, again).get('ncid')) != 500: ck.violation(('max_files', 'create', 'reissue'), c.text(), 'create after closing id 500: rc=%d ncid=%s' % (r.rc(0, again), r.r(0, again).get('ncid')))
        else:
            L = r.r(0, led)
            if any(L.get(k) != '0' for k in ('malloc', 'types', 'comms', 'infos', 'files', 'reqs')):
                ck.violation(('leak', 'create', 'NC_ENFILE path:' + ','.join(k for k in ('malloc', 'types', 'comms', 'infos', 'files', 'reqs') if L.get(k) != '0')), c.text(), 'after 1024 creates + refused 1025th + all closed: %s' % dict(L))
        ck.outcomes.add(('maxfiles', r.rc(0, over)))
    # ---- leaving a file with requests still pending: close and abort cancel them, report NC_EPENDING, and leave nothing behind
    pend = []
    for np_ in ((1, 2, 3) if thorough else (1, 2)):
        for posts in (['iput'], ['iget'], ['bput'], ['iput_varn'], ['iput', 'iget', 'bput'], ['iget_conv', 'iput_conv']):
            for how in ('close', 'abort', 'redef_abort', 'indep_close', 'indep_abort', 'newdef_abort', 'newdef_close'):
                c = Case('C17-pending-np%d-%s-%s' % (np_, '+'.join(posts), how), np_)
                c.op('*', 'create', f=0, path='p.nc', fmt=2)
                c.op('*', 'def_dim', name='t', unlim=1); c.op('*', 'def_dim', name='x', len=4)
                c.op('*', 'def_var', name='v', xtype='int', dims=[0, 1]); c.op('*', 'def_var', name='w', xtype='short', dims=[1])
                if not how.startswith('newdef'):       # newdef: requests posted in the define mode of a file that never left it
                    c.op('*', 'enddef', f=0)
                    c.op('*', 'put', f=0, form='vara', v=0, s=[0, 0], c=[2, 4], coll=1, mem='int', tag=3, scale=1)
                if 'bput' in posts: c.op('*', 'buffer_attach', f=0, size=256)
                if how.startswith('indep'): c.op('*', 'begin_indep', f=0)
                plines = []
                for q, kind in enumerate(posts):
                    if kind in ('iput', 'bput'): plines.append(c.op('*', 'put', f=0, form='vara', v=0, s=[2 + q, 0], c=[1, 4], mem='int', tag=5 + q, scale=1, nb='i' if kind == 'iput' else 'b', req=q))
                    elif kind == 'iput_conv': plines.append(c.op('*', 'put', f=0, form='vara', v=1, s=[0], c=[4], mem='double', tag=7, scale=1, nb='i', req=q))
                    elif kind == 'iget': plines.append(c.op('*', 'get', f=0, form='vara', v=0, s=[0, 0], c=[2, 2], mem='int', nb='i', req=q))
                    elif kind == 'iget_conv': plines.append(c.op('*', 'get', f=0, form='vara', v=0, s=[1, 0], c=[1, 4], mem='double', nb='i', req=q))
                    else: plines.append(c.op('*', 'put', f=0, form='varn', v=0, mem='int', n=2, nd=2, s0=[3, 0], c0=[2, 2], s1=[2, 2], c1=[1, 2], tag=9, scale=1, nb='i', req=q))
                if how == 'redef_abort': c.op('*', 'redef', f=0); c.op('*', 'put_att', f=0, v=-1, name='a', xtype='int', n=1, vals=[1])
                lx = c.op('*', 'abort' if how.endswith('abort') else 'close', f=0)
                stale = c.op('*', 'sync', ncid=0)
                led = c.op('*', 'ledger'); nfo = c.op('*', 'inq_files_opened')
                pend.append((c, lx, stale, led, nfo, plines))
    pres = runner.run_cases(b['vx'], [x[0] for x in pend], batch=30)
    for (c, lx, stale, led, nfo, plines), r in zip(pend, pres):
        ck.cov['evaluations'] += 1; trans += 1
        if r.status != 'ok':
            from engine.script import first_frame
            ck.violation((r.status, 'pending at exit', first_frame(r.detail)), c.text(), c.name + ': ' + r.detail[:500]); continue
        for k in r.ranks:
            ck.outcomes.add(('pending', c.name.split('-')[-1], r.rc(k, lx)))
            want = D.NC_EPENDING if any(r.rc(k, pl) == 0 for pl in plines) else 0        # a request the library refused to queue (a read posted in define mode) is not pending
            if r.rc(k, lx) != want:
                ck.violation(('rc', 'close/abort with pending requests', c.name.split('-')[-1]), c.text(), '%s: rank %d returned %d, expected %d (posting calls returned %s)' % (c.name, k, r.rc(k, lx), want, [r.rc(k, pl) for pl in plines])); break
            if r.rc(k, stale) != D.NC_EBADID:
                ck.violation(('rc', 'stale id', 'after close/abort with pending requests'), c.text(), '%s: rank %d: the id is still accepted (rc=%d)' % (c.name, k, r.rc(k, stale))); break
            L = r.r(k, led)
            if any(L.get(x) != '0' for x in ('malloc', 'types', 'comms', 'infos', 'files', 'reqs')) or r.r(k, nfo).get('n') != '0':
                ck.violation(('leak', 'close/abort with pending requests', ','.join(x for x in ('malloc', 'types', 'comms', 'infos', 'files', 'reqs') if L.get(x) != '0')), c.text(),
                             '%s: rank %d: %s open=%s' % (c.name, k, {x: L.get(x) for x in ('malloc', 'types', 'comms', 'infos', 'files', 'reqs')}, r.r(k, nfo).get('n'))); break
    ck.cov['pending_at_exit_cases'] = len(pend)
    # ---- every way a nonblocking request leaves the queue (served, cancelled, refused at posting) x every kind of per-request MPI object
    # (duplicated non-contiguous buffer type of a read, datatype built from a true imap, conversion buffer): nothing is left after the close
    KINDS = {
        'iget': dict(op='get', form='vara', v=0, s=[0, 0], c=[2, 2], mem='int'),
        'iget_nc': dict(op='get', form='vara', v=0, s=[0, 0], c=[2, 2], mem='int', lay='idx'),
        'iget_conv_nc': dict(op='get', form='vara', v=0, s=[0, 0], c=[1, 4], mem='double', lay='vec:1:2'),
        'iget_imap': dict(op='get', form='varm', v=0, s=[0, 0], c=[2, 2], st=[1, 1], imap=[1, 2], mem='int'),
        'iput_nc': dict(op='put', form='vara', v=0, s=[2, 0], c=[1, 4], mem='int', lay='vec:1:2'),
        'iput_imap': dict(op='put', form='varm', v=0, s=[2, 0], c=[2, 2], st=[1, 1], imap=[1, 2], mem='int'),
        'bput_imap': dict(op='put', form='varm', v=0, s=[2, 0], c=[2, 2], st=[1, 1], imap=[1, 2], mem='int', nb='b'),
        'bput_nc': dict(op='put', form='vara', v=0, s=[3, 0], c=[1, 4], mem='int', lay='idx', nb='b'),
    }
    RETIRE = ['wait_id', 'wait_ALL', 'cancel_id', 'cancel_ALL', 'cancel_kind', 'refused_nobuf', 'refused_small', 'refused_coords']
    ret = []
    for np_ in (1, 2):
        for kname, kd in KINDS.items():
            for how in RETIRE:
                isb = kd.get('nb') == 'b'
                if how in ('refused_nobuf', 'refused_small') and not isb: continue
                for indep in (0, 1):
                    if np_ == 2 and (indep or how.startswith('refused')) and kname not in ('iget_nc', 'bput_imap'): continue
                    c = Case('C17-retire-np%d-%s-%s-%s' % (np_, kname, how, 'indep' if indep else 'coll'), np_)
                    c.op('*', 'create', f=0, path='q.nc', fmt=2)
                    c.op('*', 'def_dim', name='t', unlim=1); c.op('*', 'def_dim', name='x', len=4)
                    c.op('*', 'def_var', name='v', xtype='int', dims=[0, 1])
                    c.op('*', 'enddef', f=0)
                    c.op('*', 'put', f=0, form='vara', v=0, s=[0, 0], c=[2, 4], coll=1, mem='int', tag=3, scale=1)
                    if isb and how != 'refused_nobuf': c.op('*', 'buffer_attach', f=0, size=4 if how == 'refused_small' else 256)
                    if indep: c.op('*', 'begin_indep', f=0)
                    kw = {k: v for k, v in kd.items() if k != 'op'}
                    kw.setdefault('nb', 'i')
                    if how == 'refused_coords': kw['s'] = [0, 9]
                    if kd['op'] == 'put': kw.update(tag=6, scale=1)
                    # two requests of the kind, so that "by id" names one and leaves one for the ALL form that follows
                    l1 = c.op('*', kd['op'], f=0, req=0, **kw)
                    l2 = c.op('*', kd['op'], f=0, req=1, **kw) if not how.startswith('refused') else None
                    if how == 'wait_id': c.op('*', 'wait', f=0, ids=['q1'], all=0 if indep else 1); c.op('*', 'wait', f=0, ids=['q0'], all=0 if indep else 1)
                    elif how == 'wait_ALL': c.op('*', 'wait', f=0, kind='ALL', all=0 if indep else 1)
                    elif how == 'cancel_id': c.op('*', 'cancel', f=0, ids=['q1']); c.op('*', 'cancel', f=0, ids=['q0'])
                    elif how == 'cancel_ALL': c.op('*', 'cancel', f=0, kind='ALL')
                    elif how == 'cancel_kind': c.op('*', 'cancel', f=0, kind='GET' if kd['op'] == 'get' else 'PUT')
                    ln = c.op('*', 'inq_nreqs', f=0)
                    if isb and how != 'refused_nobuf': c.op('*', 'buffer_detach', f=0)
                    if indep: c.op('*', 'end_indep', f=0)
                    lx = c.op('*', 'close', f=0)
                    led = c.op('*', 'ledger'); nfo = c.op('*', 'inq_files_opened')
                    ret.append((c, how, l1, ln, lx, led, nfo))
    rres = runner.run_cases(b['vx'], [x[0] for x in ret], batch=30)
    for (c, how, l1, ln, lx, led, nfo), r in zip(ret, rres):
        ck.cov['evaluations'] += 1; trans += 1
        if r.status != 'ok':
            from engine.script import first_frame
            ck.violation((r.status, 'request retirement', first_frame(r.detail)), c.text(), c.name + ': ' + r.detail[:500]); continue
        for k in r.ranks:
            ck.outcomes.add(('retire', how, r.rc(k, l1), r.rc(k, lx)))
            if how.startswith('refused') and r.rc(k, l1) == 0:
                ck.violation(('rc', 'post', how), c.text(), '%s: rank %d: the posting call was expected to be refused, it returned 0' % (c.name, k)); break
            if not how.startswith('refused') and r.rc(k, l1) != 0:
                ck.violation(('rc', 'post', how), c.text(), '%s: rank %d: the posting call returned %d' % (c.name, k, r.rc(k, l1))); break
            if r.r(k, ln).get('n') != '0' or r.rc(k, lx) != 0:
                ck.violation(('rc', 'close after every request was retired', how), c.text(), '%s: rank %d: %s requests pending, close returned %d' % (c.name, k, r.r(k, ln).get('n'), r.rc(k, lx))); break
            L = r.r(k, led)
            if any(L.get(x) != '0' for x in ('malloc', 'types', 'comms', 'infos', 'files', 'reqs')) or r.r(k, nfo).get('n') != '0':
                ck.violation(('leak', 'request retirement', how + ':' + ','.join(x for x in ('malloc', 'types', 'comms', 'infos', 'files', 'reqs') if L.get(x) != '0')), c.text(),
                             '%s: rank %d: after the last close: %s open=%s' % (c.name, k, {x: L.get(x) for x in ('malloc', 'types', 'comms', 'infos', 'files', 'reqs')}, r.r(k, nfo).get('n'))); break
    ck.cov['request_retirement_cases'] = len(ret)
    # ---- the fault programs of C11 run to completion with one injected I/O failure each: whatever failed, once every file is closed
    # (every program closes its files) the library holds nothing
    import checks.c11 as c11
    fnps = (1, 2, 3) if thorough else (1, 2)
    ff = [(p, np_, c11.mkcase(p, np_, ledger=True)) for p in c11.PROGRAMS for np_ in fnps]
    fres0 = runner.run_cases(b['vx'], [x[2] for x in ff], batch=8)
    fl = []
    for (p, np_, c), r in zip(ff, fres0):
        ck.cov['evaluations'] += 1; trans += 1
        if r.status != 'ok': continue          # judged by C11
        im = c11.inj_map(r, np_)
        fl.append((p, np_, None, 0, c, r))
        for k in range(np_):
            for pos in range(1, int(r.end[k].get('inj', 0)) + 1):
                if not any(a <= pos <= bb for a, bb, ln, op in im[k]): continue
                for cl in (('MPI_ERR_NO_SPACE', 'MPI_ERR_IO') if thorough else ('MPI_ERR_NO_SPACE',)):
                    fl.append((p, np_, k, pos, c11.mkcase(p, np_, (k, pos, c11.CLASSES[cl]), '-led-r%d-p%d-%s' % (k, pos, cl), ledger=True), None))
    # ---- the same programs with the failure injected into an MPI_File_set_view call instead (case option injview=1: the injectable
    # calls of a case are then its set_view calls and only those; the view is set all the same and the caller is told it failed):
    # every set_view call of every process, one at a time
    ffv = [(p, np_, c11.mkcase(p, np_, ledger=True, injview=True)) for p in c11.PROGRAMS for np_ in fnps]
    fresv = runner.run_cases(b['vx'], [x[2] for x in ffv], batch=8)
    nview = 0
    for (p, np_, c), r in zip(ffv, fresv):
        ck.cov['evaluations'] += 1; trans += 1
        if r.status != 'ok': continue
        for k in range(np_):
            for pos in range(1, int(r.end[k].get('inj', 0)) + 1):
                nview += 1
                fl.append((p, np_, k, pos, c11.mkcase(p, np_, (k, pos, c11.CLASSES['MPI_ERR_NO_SPACE']), '-led-view-r%d-p%d' % (k, pos), ledger=True, injview=True), None))
    ck.cov['set_view_fault_runs'] = nview
    todo = [x for x in fl if x[5] is None]
    fres = iter(runner.run_cases(b['vx'], [x[4] for x in todo], batch=40))
    nfault = 0
    for (p, np_, k, pos, c, r0) in fl:
        r = r0 if r0 is not None else next(fres)
        if r0 is None: ck.cov['evaluations'] += 1; trans += 1; nfault += 1
        if r.status != 'ok': continue          # hangs and crashes under faults are C11's verdicts
        for kk in r.ranks:
            L = next((o2 for ln2, o2 in sorted(r.ranks[kk].items(), reverse=True) if o2.get('op') == 'ledger'), None)
            if L is None or L.get('nopen') != '0': continue
            badk = [x for x in ('malloc', 'types', 'comms', 'infos', 'files', 'reqs') if L.get(x) not in (None, '0')]
            ck.outcomes.add(('after-fault', bool(badk)))
            if badk:
                where = r.end.get(k, {}).get('where') if k is not None else 'no fault'
                ck.violation(('leak', 'after an I/O failure' if k is not None else 'fault-free program', '%s:%s' % (where, ','.join(badk))), c.text(),
                             '%s: rank %d holds %s after the last close (%s)' % (c.name, kk, {x: L.get(x) for x in badk}, 'failure injected into %s on rank %d, injectable call %d' % (where, k, pos) if k is not None else 'no fault')); break
    ck.cov['fault_program_runs'] = nfault
    # ---- POSIX descriptors: cycles of create / reopen / close of files with and without variables (a variable-less file is trimmed through a
    # descriptor of the root's own at close), read-only and writable, while another file stays open: every process holds as many
    # descriptors afterwards as before (both counts taken after a warm-up cycle in the same process)
    fdc = []
    for np_ in (1, 2, 3) if thorough else (1, 2):
        for fmt in (1, 5):
            c = Case('C17-fds-np%d-f%d' % (np_, fmt), np_)
            def cycle(c, k):
                for withvar in (1, 0):
                    pth = 'fd%d_%d.nc' % (k, withvar)
                    c.op('*', 'create', f=1, path=pth, fmt=fmt); c.op('*', 'def_dim', f=1, name='x', len=3); c.op('*', 'put_att', f=1, v=-1, name='a', xtype='int', n=1, vals=[k])
                    if withvar: c.op('*', 'def_var', f=1, name='v', xtype='int', dims=[0])
                    c.op('*', 'enddef', f=1); c.op('*', 'close', f=1)
                    c.op('*', 'open', f=1, path=pth, write=1); c.op('*', 'redef', f=1); c.op('*', 'put_att', f=1, v=-1, name='b', xtype='int', n=1, vals=[k]); c.op('*', 'enddef', f=1); c.op('*', 'close', f=1)
                    c.op('*', 'open', f=1, path=pth, write=0); c.op('*', 'close', f=1)
                    c.op('*', 'create', f=1, path=pth, fmt=fmt); c.op('*', 'abort', f=1)
            c.op('*', 'create', f=0, path='keep.nc', fmt=fmt); c.op('*', 'def_dim', f=0, name='x', len=2); c.op('*', 'enddef', f=0)
            cycle(c, 0)
            l0 = c.op('*', 'fdcount')
            for k in (1, 2, 3): cycle(c, k)
            l1 = c.op('*', 'fdcount')
            c.op('*', 'close', f=0)
            led = c.op('*', 'ledger')
            fdc.append((c, l0, l1, led))
    for (c, l0, l1, led), r in zip(fdc, runner.run_cases(b['vx'], [x[0] for x in fdc], batch=4)):
        ck.cov['evaluations'] += 1; trans += 1
        if r.status != 'ok':
            from engine.script import first_frame
            ck.violation((r.status, 'descriptor cycles', first_frame(r.detail)), c.text(), c.name + ': ' + r.detail[:500]); continue
        for k in r.ranks:
            bad = [(ln, o.get('op'), o.rc) for ln, o in r.ranks[k].items() if o.rc != 0]
            if bad: ck.violation(('rc', 'descriptor cycles', 'failing op'), c.text(), '%s: rank %d: %s' % (c.name, k, bad[:3])); break
            n0, n1 = int(r.r(k, l0).get('n', -1)), int(r.r(k, l1).get('n', -2))
            ck.outcomes.add(('fds', n1 - n0))
            if n1 != n0:
                ck.violation(('leak', 'file descriptors', 'create/open/close cycles'), c.text(), '%s: rank %d holds %d open descriptors after three more cycles of create / open / close, %d before' % (c.name, k, n1, n0)); break
    ck.cov['descriptor_cycle_cases'] = len(fdc)
    # ---- opens that fail inside the driver (valid signature, header broken further down) release everything they took
    import checks.c04 as c04, checks.c20 as c20
    from engine import cdf
    fails = []
    for ver in (1, 5):
        for kind in ('fixed', 'record2'):
            f = c04.mkfile_schema(ver, kind); cdf.layout(f); data = c04.gen_data(f); raw = cdf.encode(f, data)
            bad = [(lab, b_) for lab, b_ in c20.invalid_edits(f, data, raw) if b_ is not None and lab != 'bad-version-byte']
            bad += [('truncated-%d' % n, raw[:n]) for n in (8, 40, len(raw) // 3)]
            for lab, b_ in bad:
                for np_ in (1, 2):
                    c = Case('C17-openfail-v%d-%s-%s-np%d' % (ver, kind, lab, np_), np_)
                    c.op(0, 'mkfile', path='bad.nc', hex=b_.hex()); c.op('*', 'barrier')
                    c.op('*', 'create', f=0, path='good.nc', fmt=1)          # another file is open meanwhile and must stay usable
                    lo = [c.op('*', 'open', f=1, path='bad.nc', write=w, hints=h) for w, h in ((0, None), (1, 'nc_var_align_size=8'), (0, 'romio_no_indep_rw=true'))]
                    lg = c.op('*', 'def_dim', f=0, name='x', len=2)
                    lc = c.op('*', 'close', f=0)
                    led = c.op('*', 'ledger'); nfo = c.op('*', 'inq_files_opened')
                    fails.append((c, lo, lg, lc, led, nfo))
    fres = runner.run_cases(b['vx'], [x[0] for x in fails], batch=30)
    for (c, lo, lg, lc, led, nfo), r in zip(fails, fres):
        ck.cov['evaluations'] += 1; trans += 1
        if r.status != 'ok':
            from engine.script import first_frame
            ck.violation((r.status, 'failing open', first_frame(r.detail)), c.text(), c.name + ': ' + r.detail[:500]); continue
        for k in r.ranks:
            rcs = [r.rc(k, ln) for ln in lo]
            ck.outcomes.add(('openfail', tuple(x != 0 for x in rcs)))
            if any(x == 0 for x in rcs): break       # accepted after all: C19 / C20 judge acceptance, nothing to account for here
            if r.rc(k, lg) != 0 or r.rc(k, lc) != 0:
                ck.violation(('rc', 'other file', 'after a failing open'), c.text(), '%s: rank %d: the file that was open meanwhile returns %d / %d' % (c.name, k, r.rc(k, lg), r.rc(k, lc))); break
            L = r.r(k, led)
            if any(L.get(x) != '0' for x in ('malloc', 'types', 'comms', 'infos', 'files', 'reqs')) or r.r(k, nfo).get('n') != '0':
                ck.violation(('leak', 'failing open', ','.join(x for x in ('malloc', 'types', 'comms', 'infos', 'files', 'reqs') if L.get(x) != '0')), c.text(),
                             '%s: rank %d: after three failing opens and closing the other file: %s open=%s' % (c.name, k, {x: L.get(x) for x in ('malloc', 'types', 'comms', 'infos', 'files', 'reqs')}, r.r(k, nfo).get('n'))); break
    ck.cov['failing_open_cases'] = len(fails)
    ck.cov.update(states=states, transitions=trans, traces_validated_against_impl=trans, max_depth=maxd, completed_depth=completed, distinct_nontrivial=states,
                  rule='BFS over {create/open of 3 paths (+ non-netCDF file, missing file, NC_NOCLOBBER), 10 per-file ops incl. close/abort on every id ever returned and on -1, 1023, 1024, 10^6}; '
                       'state = (open id table with per-file reference model, files on disk); after every transition each open file is swept against its own model, all files are closed and the '
                       'malloc/MPI-object ledger must be zero; plus the NC_MAX_NFILES boundary case; plus every way of leaving a file (close, abort, abort after redef, from independent mode, close / abort of a new file still in its first define mode) with iput / iget / bput / iput_varn / converting requests still pending on 1-3 processes: NC_EPENDING, id invalid afterwards, ledger zero; plus every way a request leaves the queue (wait / cancel by id, by ALL, by kind; refused at posting for lack of buffer space or bad coordinates) x requests owning MPI objects (non-contiguous buffer type of a read, true imap, conversion, buffered) in collective and independent mode: nothing pending, close succeeds, ledger zero; plus the fault programs of C11 (every write and read path, header and record-count I/O, redefinition, fill, open) with one I/O failure injected at every injectable call of every process: after the program has closed its files the ledger is zero; plus the same programs with the failure injected into every MPI_File_set_view call of every process instead (case option injview=1), same ledger oracle; plus cycles of create / reopen / abort / close of files with and without variables while another file is open: the number of open POSIX descriptors of every process is the same before and after; plus opens of files with a valid signature and a header broken further down (9 grammar violations, 3 truncations, 2 formats) while another file is open: the other file stays usable and the ledger returns to zero')
    ck.assumptions += ['depth bound %d, np=1' % maxdepth]
    runner.cleanup()
    return ck.finish(min_eval=200, min_outcomes=15)


if __name__ == '__main__':
    sys.exit(main(sys.argv[1] if len(sys.argv) > 1 else None))
