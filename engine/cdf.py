"""Independent decoder/encoder for the classic netCDF formats CDF-1, CDF-2, CDF-5.

Written from the format grammar only (no code or tables shared with PnetCDF):

    netcdf_file = header data
    header      = magic numrecs dim_list gatt_list var_list
    magic       = 'C' 'D' 'F' VERSION               VERSION = 1 | 2 | 5
    numrecs     = NON_NEG | STREAMING (all ones)
    dim_list    = ABSENT | NC_DIMENSION nelems [dim ...]
    att_list    = ABSENT | NC_ATTRIBUTE nelems [attr ...]
    var_list    = ABSENT | NC_VARIABLE  nelems [var ...]
    ABSENT      = ZERO(4 bytes) nelems==0
    name        = nelems namestring padding(to 4)
    dim         = name dim_length                   (0 = record dimension)
    attr        = name nc_type nelems [values ...] padding(to 4)
    var         = name nelems [dimid ...] vatt_list nc_type vsize begin
    NON_NEG     = 4 bytes (CDF-1/2) | 8 bytes (CDF-5);   nc_type, tags = 4 bytes
    begin       = 4 bytes (CDF-1) | 8 bytes (CDF-2/5);   everything big-endian

Stdlib only.  decode() raises CDFError and nothing else, whatever the input.
"""
import math
import struct

NC_BYTE, NC_CHAR, NC_SHORT, NC_INT, NC_FLOAT, NC_DOUBLE = 1, 2, 3, 4, 5, 6
NC_UBYTE, NC_USHORT, NC_UINT, NC_INT64, NC_UINT64 = 7, 8, 9, 10, 11
TYPE_SIZE = {1: 1, 2: 1, 3: 2, 4: 4, 5: 4, 6: 8, 7: 1, 8: 2, 9: 4, 10: 8, 11: 8}
# python struct codes (NC_CHAR is handled as unsigned bytes)
_CODE = {1: 'b', 2: 'B', 3: 'h', 4: 'i', 5: 'f', 6: 'd', 7: 'B', 8: 'H', 9: 'I', 10: 'q', 11: 'Q'}
TAG_DIM, TAG_VAR, TAG_ATT = 0x0A, 0x0B, 0x0C
MAX_ELEMS = 1 << 24          # default cap on decoded elements per variable


class CDFError(Exception):
    """str(e) == '<kind>: <what> at byte offset <n>'; also .kind and .offset."""
    def __init__(self, kind, what='', offset=0):
        super().__init__('%s: %s at byte offset %d' % (kind, what, offset))
        self.kind, self.offset = kind, offset


class Dim:
    def __init__(self, name, size, raw_name=None):
        self.name, self.size, self.raw_name = name, size, raw_name


class Att:
    def __init__(self, name, xtype, values, raw_name=None):
        self.name, self.xtype, self.values, self.raw_name = name, xtype, values, raw_name


class Var:
    def __init__(self, name, xtype, dimids, atts=None, vsize=0, begin=0, raw_name=None):
        self.name, self.xtype, self.dimids = name, xtype, list(dimids)
        self.atts = list(atts or [])
        self.vsize, self.begin, self.raw_name = vsize, begin, raw_name
        self.shape = self.is_record = self.nelems_per_rec_or_total = self.byte_size = None


class File:
    def __init__(self, version, dims=None, gatts=None, vars=None, numrecs=0, absent=None):
        self.version, self.numrecs, self.numrecs_raw = version, numrecs, None
        self.dims, self.gatts, self.vars = list(dims or []), list(gatts or []), list(vars or [])
        self.absent = dict(absent or {})
        self.hdr_len = self.recsize = None
        self.data = {}


def _pad4(n):
    return (n + 3) & ~3


def _widths(version):
    """(width of NON_NEG fields, width of begin)."""
    if version not in (1, 2, 5):
        raise ValueError('version must be 1, 2 or 5, not %r' % (version,))
    return (8 if version == 5 else 4), (4 if version == 1 else 8)


def streaming_value(version):
    """The STREAMING numrecs value: set f.numrecs_raw to it to have it encoded."""
    return (1 << (8 * _widths(version)[0])) - 1


def _name_bytes(obj):
    return obj.raw_name if obj.raw_name is not None else obj.name.encode('utf-8')


def pack_values(xtype, values):
    """Big-endian external bytes, no padding.  None counts as 0; NC_CHAR takes bytes/str too."""
    if isinstance(values, str):
        values = values.encode('utf-8')
    if isinstance(values, (bytes, bytearray)) and _CODE[xtype] == 'B':
        return bytes(values)
    vals = [0 if v is None else v for v in values]
    return struct.pack('>%d%s' % (len(vals), _CODE[xtype]), *vals)


def unpack_values(xtype, raw):
    """List of python ints/floats (NC_CHAR: ints 0..255); trailing partial element ignored."""
    n = len(raw) // TYPE_SIZE[xtype]
    return list(struct.unpack('>%d%s' % (n, _CODE[xtype]), raw[:n * TYPE_SIZE[xtype]]))


def compute_shapes(f):
    """Fill the computed Var fields and f.recsize from dims/dimids/xtype."""
    rec_sizes = []
    for v in f.vars:
        v.shape = [f.dims[d].size for d in v.dimids]
        v.is_record = bool(v.shape) and v.shape[0] == 0
        v.nelems_per_rec_or_total = math.prod(v.shape[1:] if v.is_record else v.shape)
        v.byte_size = v.nelems_per_rec_or_total * TYPE_SIZE[v.xtype]
        if v.is_record:
            rec_sizes.append(v.byte_size)
    # one record variable: records are packed; otherwise every slab is padded to 4
    f.recsize = rec_sizes[0] if len(rec_sizes) == 1 else sum(_pad4(s) for s in rec_sizes)


def _rec_slab(f, v):
    """Bytes one record of v occupies in the file (incl. padding)."""
    single = sum(1 for x in f.vars if x.is_record) == 1
    return v.byte_size if single else _pad4(v.byte_size)


# ------------------------------------------------------------------ decoder

class _Reader:
    def __init__(self, buf, version_w=4):
        self.buf, self.pos, self.w = buf, 0, version_w

    def need(self, n, what):
        if n > len(self.buf) - self.pos:
            raise CDFError('truncated', 'need %d bytes for %s, have %d'
                           % (n, what, len(self.buf) - self.pos), self.pos)

    def take(self, n, what):
        self.need(n, what)
        self.pos += n
        return self.buf[self.pos - n:self.pos]

    def uint(self, width, what):
        return int.from_bytes(self.take(width, what), 'big')

    def non_neg(self, what):
        return self.uint(self.w, what)

    def padding(self, nbytes, what, strict):
        npad = _pad4(nbytes) - nbytes
        at = self.pos
        if any(self.take(npad, 'padding of ' + what)) and strict:
            raise CDFError('bad-padding', 'non-zero padding after ' + what, at)


def _get_name(r, what, strict):
    at = r.pos
    n = r.non_neg('length of ' + what)
    raw = bytes(r.take(n, what))
    r.padding(n, what, strict)
    if not strict:
        return raw.decode('utf-8', 'surrogateescape'), raw
    if n == 0:
        raise CDFError('bad-name', 'empty ' + what, at)
    try:
        name = raw.decode('utf-8')
    except UnicodeDecodeError:
        raise CDFError('bad-name', what + ' is not UTF-8', at) from None
    first = raw[0]
    ok = (first >= 0x80 or first == 0x5F or 0x30 <= first <= 0x39
          or 0x41 <= first <= 0x5A or 0x61 <= first <= 0x7A)
    if not ok or any(b < 0x20 or b == 0x7F or b == 0x2F for b in raw):
        raise CDFError('bad-name', '%s %r has an illegal character' % (what, raw), at)
    return name, raw


def _get_list(r, tag, key, absent, min_entry, what):
    """Read tag + nelems of a list; returns nelems after sanity checks."""
    at = r.pos
    t = r.uint(4, what + ' tag')
    n = r.non_neg(what + ' nelems')
    if t == 0:
        if n != 0:
            raise CDFError('bad-tag', 'ZERO tag of %s followed by nelems %d' % (what, n), at)
    elif t != tag:
        raise CDFError('bad-tag', '%s has tag 0x%X, expected 0x%X' % (what, t, tag), at)
    absent[key] = (t == 0)
    r.need(n * min_entry, '%d entries of %s' % (n, what))
    return n


def _get_type(r, version, what, strict):
    at = r.pos
    t = r.uint(4, what)
    if t not in TYPE_SIZE:
        raise CDFError('bad-type', '%s is %d' % (what, t), at)
    if strict and t >= NC_UBYTE and version != 5:
        raise CDFError('bad-type', '%s %d is not legal in CDF-%d' % (what, t, version), at)
    return t


def _check_dups(names, what, at):
    if len(set(names)) != len(names):
        raise CDFError('dup-name', 'duplicate name in ' + what, at)


def _get_atts(r, version, key, absent, what, strict):
    at = r.pos
    n = _get_list(r, TAG_ATT, key, absent, 2 * r.w + 4, what)
    atts = []
    for _ in range(n):
        name, raw = _get_name(r, 'attribute name', strict)
        xtype = _get_type(r, version, 'attribute nc_type', strict)
        nel = r.non_neg('attribute nelems')
        r.need(nel * TYPE_SIZE[xtype], 'values of attribute %r' % name)
        body = bytes(r.take(nel * TYPE_SIZE[xtype], 'attribute values'))
        r.padding(len(body), 'values of attribute %r' % name, strict)
        atts.append(Att(name, xtype, body if xtype == NC_CHAR else unpack_values(xtype, body), raw))
    if strict:
        _check_dups([a.raw_name for a in atts], what, at)
    return atts


def _decode(buf, with_data, strict, max_elems):
    r = _Reader(buf)
    magic = r.take(4, 'magic')
    if magic[:3] != b'CDF':
        raise CDFError('bad-magic', 'file starts with %r' % bytes(magic[:3]), 0)
    if magic[3] not in (1, 2, 5):
        raise CDFError('bad-version', 'version byte is %d' % magic[3], 3)
    f = File(magic[3])
    r.w, begin_w = _widths(f.version)
    f.numrecs = f.numrecs_raw = r.non_neg('numrecs')

    at = r.pos
    for _ in range(_get_list(r, TAG_DIM, 'dims', f.absent, 2 * r.w, 'dim_list')):
        name, raw = _get_name(r, 'dimension name', strict)
        f.dims.append(Dim(name, r.non_neg('dim_length'), raw))
    if strict:
        _check_dups([d.raw_name for d in f.dims], 'dim_list', at)
        if sum(1 for d in f.dims if d.size == 0) > 1:
            raise CDFError('multi-unlimited', 'more than one dimension of length 0', at)

    f.gatts = _get_atts(r, f.version, 'gatts', f.absent, 'gatt_list', strict)

    at = r.pos
    nvars = _get_list(r, TAG_VAR, 'vars', f.absent, 4 * r.w + 8 + begin_w, 'var_list')
    for i in range(nvars):
        vat = r.pos
        name, raw = _get_name(r, 'variable name', strict)
        ndims = r.non_neg('variable ndims')
        r.need(ndims * r.w, '%d dimids' % ndims)
        dimids = [r.non_neg('dimid') for _ in range(ndims)]
        for k, d in enumerate(dimids):
            if d >= len(f.dims):
                raise CDFError('bad-dimid', 'variable %r dimid %d, file has %d dims'
                               % (name, d, len(f.dims)), vat)
            if strict and k > 0 and f.dims[d].size == 0:
                raise CDFError('bad-recdim-pos', 'variable %r uses the record dimension '
                               'at position %d' % (name, k), vat)
        atts = _get_atts(r, f.version, ('vatts', i), f.absent, 'vatt_list', strict)
        xtype = _get_type(r, f.version, 'variable nc_type', strict)
        vsize = r.non_neg('vsize')
        f.vars.append(Var(name, xtype, dimids, atts, vsize, r.uint(begin_w, 'begin'), raw))
    if strict:
        _check_dups([v.raw_name for v in f.vars], 'var_list', at)
    f.hdr_len = r.pos
    compute_shapes(f)

    recs = [v for v in f.vars if v.is_record]
    if f.numrecs_raw == streaming_value(f.version):      # resolve from the file length
        f.numrecs = 0
        if recs and f.recsize > 0:
            first = min(v.begin for v in recs)
            f.numrecs = max(0, -(-(len(buf) - first) // f.recsize))   # a partial last record counts
    if strict:
        _check_layout(f)
    if with_data:
        for i, v in enumerate(f.vars):
            f.data[i] = _get_data(f, v, buf, max_elems)
    return f


def _check_layout(f):
    fixed = [v for v in f.vars if not v.is_record]
    recs = [v for v in f.vars if v.is_record]
    for v in f.vars:
        if v.begin < f.hdr_len:
            raise CDFError('bad-begin', 'variable %r begins inside the header (%d bytes)'
                           % (v.name, f.hdr_len), v.begin)
    for group, what in ((fixed, 'fixed'), (recs, 'record')):
        for a, b in zip(group, group[1:]):
            if b.begin < a.begin:
                raise CDFError('bad-begin', '%s variables %r, %r: begins decrease in '
                               'definition order' % (what, a.name, b.name), b.begin)
            if b.begin < a.begin + a.byte_size:
                raise CDFError('overlap', '%s variables %r and %r overlap'
                               % (what, a.name, b.name), b.begin)
    if recs:
        if fixed and recs[0].begin < max(v.begin + v.byte_size for v in fixed):
            raise CDFError('bad-begin', 'record section starts before the end of the '
                           'fixed-size variables', recs[0].begin)
        if recs[-1].begin + recs[-1].byte_size - recs[0].begin > f.recsize:
            raise CDFError('overlap', 'record variables do not fit in one record of %d bytes'
                           % f.recsize, recs[-1].begin)


def _get_data(f, v, buf, max_elems):
    per, size = v.nelems_per_rec_or_total, TYPE_SIZE[v.xtype]
    nblocks = f.numrecs if v.is_record else 1
    if nblocks * max(per, 1) > max_elems:
        raise CDFError('data-too-large', 'variable %r has %d x %d elements, limit is %d'
                       % (v.name, nblocks, per, max_elems), v.begin)
    out = []
    for r in range(nblocks):
        off = v.begin + r * (f.recsize if v.is_record else 0)
        got = unpack_values(v.xtype, buf[off:off + per * size])
        out += got + [None] * (per - len(got))          # beyond EOF: never written
    return out


def decode(buf, with_data=True, strict=True, max_elems=MAX_ELEMS):
    """Decode a whole file image.  Raises CDFError (kind first) on any violation."""
    try:
        return _decode(memoryview(bytes(buf)), with_data, strict, max_elems)
    except CDFError:
        raise
    except (struct.error, IndexError, KeyError, ValueError, OverflowError,
            MemoryError, TypeError, ArithmeticError) as e:     # safety net, not expected
        raise CDFError('internal', '%s: %s' % (type(e).__name__, e), 0) from None


# ------------------------------------------------------------------ encoder

def _put(width, value, what):
    if not 0 <= value < (1 << (8 * width)):
        raise ValueError('%s = %d does not fit in %d bytes' % (what, value, width))
    return value.to_bytes(width, 'big')


def _put_padded(body, pad_byte):
    return body + bytes([pad_byte]) * (_pad4(len(body)) - len(body))


def _put_name(obj, w, pad_byte):
    raw = _name_bytes(obj)
    return _put(w, len(raw), 'name length') + _put_padded(raw, pad_byte)


def _put_list(tag, entries, absent, w):
    if not entries and absent:
        return bytes(4 + w)
    return _put(4, tag, 'tag') + _put(w, len(entries), 'nelems') + b''.join(entries)


def _put_atts(atts, absent, w, pad_byte):
    out = []
    for a in atts:
        body = pack_values(a.xtype, a.values)
        out.append(_put_name(a, w, pad_byte) + _put(4, a.xtype, 'nc_type')
                   + _put(w, len(body) // TYPE_SIZE[a.xtype], 'nelems') + _put_padded(body, pad_byte))
    return _put_list(TAG_ATT, out, absent, w)


def encode_header(f, *, pad_byte=0):
    """Exactly the header described by f (begins, vsizes, numrecs, absent as given)."""
    w, begin_w = _widths(f.version)
    streaming = f.numrecs_raw is not None and f.numrecs_raw == streaming_value(f.version)
    out = [b'CDF', bytes([f.version]), _put(w, f.numrecs_raw if streaming else f.numrecs, 'numrecs')]
    dims = [_put_name(d, w, pad_byte) + _put(w, d.size, 'dim_length') for d in f.dims]
    out.append(_put_list(TAG_DIM, dims, f.absent.get('dims', True), w))
    out.append(_put_atts(f.gatts, f.absent.get('gatts', True), w, pad_byte))
    vars_ = []
    for i, v in enumerate(f.vars):
        vars_.append(_put_name(v, w, pad_byte) + _put(w, len(v.dimids), 'ndims')
                     + b''.join(_put(w, d, 'dimid') for d in v.dimids)
                     + _put_atts(v.atts, f.absent.get(('vatts', i), True), w, pad_byte)
                     + _put(4, v.xtype, 'nc_type') + _put(w, v.vsize, 'vsize')
                     + _put(begin_w, v.begin, 'begin'))
    out.append(_put_list(TAG_VAR, vars_, f.absent.get('vars', True), w))
    return b''.join(out)


def file_order(f):
    """Variables in file order: fixed-size ones, then record ones (definition order each)."""
    compute_shapes(f)
    return [v for v in f.vars if not v.is_record] + [v for v in f.vars if v.is_record]


def layout(f, *, first_gap=0, var_gaps=None, rec_gap=0, vsize_mode='correct'):
    """Assign begin (4-byte aligned, right after the header) and vsize of every variable.

    File order is file_order(f); var_gaps[i] = extra bytes before the i-th variable in
    that order, first_gap after the header, rec_gap before the record section.
    vsize_mode: 'correct' | 'zero' | 'stale' (correct + 4) | 'max' (all ones).

    A gap in front of a record variable other than the first one makes the records
    overlap (recsize is fixed by the grammar): useful only to build invalid files."""
    w = _widths(f.version)[0]
    all_ones = (1 << (8 * w)) - 1
    order = file_order(f)
    for v in f.vars:                       # placeholders so that the header can be measured
        v.begin = v.vsize = 0
    f.hdr_len = len(encode_header(f))      # does not depend on the begin/vsize values
    pos = _pad4(f.hdr_len) + first_gap
    seen_rec = False
    for i, v in enumerate(order):
        if var_gaps and i < len(var_gaps):
            pos += var_gaps[i]
        if v.is_record and not seen_rec:
            pos, seen_rec = pos + rec_gap, True
        v.begin = pos
        correct = min(_pad4(v.byte_size), all_ones)
        v.vsize = {'correct': correct, 'zero': 0, 'stale': min(correct + 4, all_ones),
                   'max': all_ones}[vsize_mode]
        pos += _pad4(v.byte_size)


def encode(f, data=None, *, free_fill=0x00, total_len=None):
    """Whole file image: header, free_fill in every gap, data (None/missing -> zero bytes)."""
    compute_shapes(f)
    header = encode_header(f)
    f.hdr_len = len(header)
    data = f.data if data is None else data
    pieces = []                                        # (offset, bytes) incl. zero padding
    for i, v in enumerate(f.vars):
        vals = list(data.get(i) or [])
        per, size = v.nelems_per_rec_or_total, TYPE_SIZE[v.xtype]
        nblocks = f.numrecs if v.is_record else 1
        if len(vals) > nblocks * per:
            raise ValueError('variable %d: %d values given, room for %d' % (i, len(vals), nblocks * per))
        raw = pack_values(v.xtype, vals).ljust(nblocks * per * size, b'\0')
        slab = _rec_slab(f, v) if v.is_record else _pad4(v.byte_size)
        for r in range(nblocks):
            off = v.begin + r * (f.recsize if v.is_record else 0)
            pieces.append((off, raw[r * per * size:(r + 1) * per * size].ljust(slab, b'\0')))
    end = max([len(header)] + [off + len(b) for off, b in pieces])
    out = bytearray(bytes([free_fill]) * end)
    out[:len(header)] = header
    for off, b in pieces:
        out[off:off + len(b)] = b
    if total_len is not None:
        out = out[:total_len] + bytes([free_fill]) * (total_len - len(out))
    return bytes(out)


def var_element_offset(f, varid, flat_index):
    """Absolute byte offset of element flat_index (row-major over the full shape)."""
    compute_shapes(f)
    v = f.vars[varid]
    size = TYPE_SIZE[v.xtype]
    if not v.is_record:
        return v.begin + flat_index * size
    rec, k = divmod(flat_index, v.nelems_per_rec_or_total)
    return v.begin + rec * f.recsize + k * size


# ------------------------------------------------------------------ logical view

def _plain(values):
    if isinstance(values, (bytes, bytearray)):
        return list(values)
    out = []
    for x in values:
        if isinstance(x, float) and (math.isnan(x) or math.isinf(x)):
            x = 'nan' if math.isnan(x) else ('inf' if x > 0 else '-inf')
        out.append(x)
    return out


def logical(f):
    """Canonical JSON-able dict of the logical content, independent of the layout."""
    def atts(lst):
        return [[a.name, a.xtype, _plain(a.values)] for a in lst]
    return {
        'version': f.version,
        'numrecs': f.numrecs,
        'dims': [[d.name, d.size] for d in f.dims],
        'gatts': atts(f.gatts),
        'vars': [{'name': v.name, 'xtype': v.xtype, 'dimids': list(v.dimids), 'atts': atts(v.atts),
                  'data': _plain(f.data[i]) if i in f.data and f.data[i] is not None else None}
                 for i, v in enumerate(f.vars)],
    }
