"""Independent check of a file snapshot against the reference model + layout invariants (C03; reused by C06, C07, C16)."""
from . import cdf
from .model import data as D

ALLONES32 = 0xFFFFFFFF


def att_values_equal(mv, fv):
    if isinstance(mv, (bytes, bytearray)):
        fvb = fv if isinstance(fv, (bytes, bytearray)) else bytes(fv)
        return bytes(mv) == bytes(fvb)
    fv = list(fv) if not isinstance(fv, (bytes, bytearray)) else list(fv)
    return len(mv) == len(fv) and D.cmp_lists(list(mv), fv) < 0


def check_logical(model, f, check_data=True):
    """model: FileModel; f: decoded cdf.File.  Returns list of (sig-cause, text)."""
    out = []
    if f.version != model.fmt: out.append(('version', 'file version %d, requested %d' % (f.version, model.fmt)))
    md = [(d[0], 0 if d[1] is None else d[1]) for d in model.dims]
    fd = [(d.name, d.size) for d in f.dims]
    if md != fd: out.append(('dims', 'dims in file %s, model %s' % (fd, md)))
    def cmp_atts(where, ml, fl):
        if [a[0] for a in ml] != [a.name for a in fl]:
            out.append(('att_names', '%s attribute names in file %s, model %s' % (where, [a.name for a in fl], [a[0] for a in ml]))); return
        for a, b in zip(ml, fl):
            if a[1] != b.xtype: out.append(('att_type', '%s att %s type %d, model %d' % (where, a[0], b.xtype, a[1])))
            elif not att_values_equal(a[2], b.values): out.append(('att_values', '%s att %s values %r, model %r' % (where, a[0], b.values, a[2])))
    cmp_atts('global', model.gatts, f.gatts)
    mv = [(v['name'], v['xtype'], list(v['dimids'])) for v in model.vars]
    fv = [(v.name, v.xtype, list(v.dimids)) for v in f.vars]
    if mv != fv: out.append(('vars', 'vars in file %s, model %s' % (fv, mv)))
    else:
        for i, v in enumerate(model.vars): cmp_atts('var %s' % v['name'], v['atts'], f.vars[i].atts)
    if any(v.is_record for v in f.vars) or model.unlimdim() >= 0:
        if f.numrecs != model.numrecs: out.append(('numrecs', 'numrecs in header %d, model %d' % (f.numrecs, model.numrecs)))
    if check_data and mv == fv and f.data is not None:
        for v, dd in model.data.items():
            got = f.data.get(v)
            if got is None: continue
            for i, x in dd.items():
                if i >= len(got) or got[i] is None:
                    out.append(('data_missing', 'var %d element %d not in file (file too short), model has %r' % (v, i, x))); break
                if not D.same(x, got[i]):
                    out.append(('data', 'var %d element %d in file %r, model %r' % (v, i, got[i], x))); break
    return out


def check_layout(f, sweep=None, filesize=None, align=None, prev=None):
    """layout invariants of the classic format + agreement with the library's own reports.
    align: dict(h=, v=, r=) effective alignments as reported by inq_file_info (or None);
    prev: dict(hext=, begin_rec=) layout before a redefinition (never-shrink rule)"""
    out = []
    order = [i for i, v in enumerate(f.vars) if not v.is_record] + [i for i, v in enumerate(f.vars) if v.is_record]
    fixed = [i for i in order if not f.vars[i].is_record]
    recs = [i for i in order if f.vars[i].is_record]
    pos = f.hdr_len
    for i in fixed:
        v = f.vars[i]
        if v.begin % 4: out.append(('begin_unaligned', 'var %s begin %d not 4-byte aligned' % (v.name, v.begin)))
        if v.begin < pos: out.append(('begin_overlap', 'var %s begin %d overlaps previous extent ending at %d' % (v.name, v.begin, pos)))
        pos = v.begin + (v.byte_size + 3) // 4 * 4
    end_fixed = pos
    # definition order within each section
    for grp in (fixed, recs):
        b = [f.vars[i].begin for i in sorted(grp)]
        if b != sorted(b): out.append(('begin_order', 'begins not ascending in definition order: %s' % b))
    rpos = end_fixed
    for i in recs:
        v = f.vars[i]
        if v.begin % 4: out.append(('begin_unaligned', 'record var %s begin %d not 4-byte aligned' % (v.name, v.begin)))
        if v.begin < rpos: out.append(('begin_overlap', 'record var %s begin %d overlaps previous extent ending at %d' % (v.name, v.begin, rpos)))
        rpos = v.begin + (v.byte_size if len(recs) == 1 else (v.byte_size + 3) // 4 * 4)
    # vsize
    w = 0xFFFFFFFF if f.version < 5 else 0xFFFFFFFFFFFFFFFF
    for v in f.vars:
        pad = (v.byte_size + 3) // 4 * 4
        if v.vsize != pad and not (v.vsize == w and pad > w):
            # single record variable: spec allows the padded size in vsize although records are packed
            out.append(('vsize', 'var %s vsize %d, padded size %d' % (v.name, v.vsize, pad)))
    if recs:
        exp_recsize = f.vars[recs[0]].byte_size if len(recs) == 1 else sum((f.vars[i].byte_size + 3) // 4 * 4 for i in recs)
        if f.recsize != exp_recsize: out.append(('recsize', 'decoder recsize %d expected %d' % (f.recsize, exp_recsize)))
    first = f.vars[order[0]].begin if order else None
    begin_rec = f.vars[recs[0]].begin if recs else None
    if sweep is not None and sweep.get('rc') == 0:
        if sweep.get('hsize') != f.hdr_len: out.append(('inq_header_size', 'inq_header_size %s, header occupies %d bytes' % (sweep.get('hsize'), f.hdr_len)))
        if first is not None and sweep.get('hext') != first: out.append(('inq_header_extent', 'inq_header_extent %s, first variable begins at %d' % (sweep.get('hext'), first)))
        if first is None and sweep.get('hext', 0) < f.hdr_len: out.append(('inq_header_extent', 'inq_header_extent %s < header size %d' % (sweep.get('hext'), f.hdr_len)))
        for i, sv in enumerate(sweep.get('vars', [])):
            if i < len(f.vars) and sv.get('off') != f.vars[i].begin: out.append(('inq_varoffset', 'inq_varoffset(%s) %s, begin in file %d' % (f.vars[i].name, sv.get('off'), f.vars[i].begin)))
        if recs and sweep.get('recsize') != f.recsize: out.append(('inq_recsize', 'inq_recsize %s, record size in file %d' % (sweep.get('recsize'), f.recsize)))
        if not recs and sweep.get('recsize') not in (0, None): out.append(('inq_recsize', 'inq_recsize %s without record variables' % sweep.get('recsize')))
    if align:
        hext = first if first is not None else (sweep or {}).get('hext')
        def ok(val, a, old):
            return val is None or a in (None, 0) or val % a == 0 or (old is not None and val == old)
        if fixed:
            if not ok(hext, align.get('h'), (prev or {}).get('hext')):
                out.append(('align_header', 'header extent %s is not a multiple of the effective nc_header_align_size %s (previous extent %s)' % (hext, align.get('h'), (prev or {}).get('hext'))))
        if recs and fixed:
            if not ok(begin_rec, align.get('r'), (prev or {}).get('begin_rec')):
                out.append(('align_record', 'record section begins at %s, not a multiple of the effective nc_record_align_size %s (previous %s)' % (begin_rec, align.get('r'), (prev or {}).get('begin_rec'))))
    return out, dict(hext=first, begin_rec=begin_rec, end_fixed=end_fixed)


def parse_info(o):
    """inq_file_info result -> dict key->str"""
    d = {}
    for kv in (o.get('info', '') or '').split(';'):
        if '=' in kv:
            k, v = kv.split('=', 1)
            try: d[k] = bytes.fromhex(v).decode()
            except ValueError: d[k] = v
    return d


def align_from_info(info):
    def g(k):
        try: return int(info.get(k))
        except (TypeError, ValueError): return None
    return dict(h=g('nc_header_align_size'), v=g('nc_var_align_size'), r=g('nc_record_align_size'))
