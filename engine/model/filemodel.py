"""Sequential reference model of one open netCDF file: mode automaton, schema, data, nonblocking bookkeeping.

model.apply(op) -> set of acceptable return codes; the model is mutated iff NC_NOERR is in the set *and* the
caller then confirms with model.commit() (two-phase so that outcome sets {error | success-without-effect}
stay sound).  Ops are dicts {'op': name, ...}.  The model is deliberately boring: lists and dicts.
"""
import copy, unicodedata, json
from . import data as D

DEF_NEW, DEF_RE, COLL, INDEP, CLOSED = 'DEF_NEW', 'DEF_RE', 'COLL', 'INDEP', 'CLOSED'

DEFAULT_FILL = {1: -127, 2: 0, 3: -32767, 4: -2147483647, 5: 9.9692099683868690e+36, 6: 9.9692099683868690e+36,
                7: 255, 8: 65535, 9: 4294967295, 10: -9223372036854775806, 11: 18446744073709551614}


def nfc(name):
    if isinstance(name, bytes): name = name.decode('utf-8')
    return unicodedata.normalize('NFC', name)


def att_xsz(xtype, n):
    return (n * D.XT_SIZE[xtype] + 3) // 4 * 4


def legal_name(name):
    """netCDF classic naming rule (model side, ASCII + UTF-8): first char alnum / '_' / multibyte; no control chars, no '/', no trailing space"""
    if not name: return False
    b = name.encode('utf-8')
    if len(b) > 256: return False
    c0 = name[0]
    if not (c0.isalnum() or c0 == '_' or ord(c0) >= 0x80): return False
    for ch in name:
        o = ord(ch)
        if o < 0x20 or o == 0x7f or ch == '/': return False
    if name[-1] == ' ': return False
    return True


class FileModel:
    def __init__(self, fmt=1):
        self.fmt = fmt; self.mode = DEF_NEW; self.rdonly = False
        self.dims = []; self.gatts = []; self.vars = []
        self.fillmode = False; self.numrecs = 0
        self.data = {}          # varid -> {flat index: value}
        self.pending = []       # dicts: id, kind('put'|'get'), v, idx, vals, bput(bool), nbytes
        self.abuf = None        # attached buffer size
        self.maxput = None; self.maxget = None
        self.saved = None       # schema snapshot taken at redef (for abort)
        self.ghost_redef_from = None
        self.nvars_old = 0      # variables that existed when define mode was entered (0 for a new file)
        self._staged = None

    # ------------------------------------------------------------ helpers
    def clone(self): return copy.deepcopy(self)
    def indef(self): return self.mode in (DEF_NEW, DEF_RE)
    def unlimdim(self):
        for i, d in enumerate(self.dims):
            if d[1] is None: return i
        return -1
    def isrec(self, v):
        var = self.vars[v]
        return bool(var['dimids']) and self.dims[var['dimids'][0]][1] is None
    def shape(self, v):
        return [self.dims[d][1] for d in self.vars[v]['dimids']]
    def inner(self, v):
        n = 1
        sh = self.shape(v)
        for s in (sh[1:] if self.isrec(v) else sh): n *= s
        return n
    def attlist(self, v): return self.gatts if v == -1 else self.vars[v]['atts']
    def findatt(self, v, name):
        for i, a in enumerate(self.attlist(v)):
            if a[0] == name: return i
        return -1
    def busage(self): return sum(p['nbytes'] for p in self.pending if p.get('bput'))

    def canon(self):
        """canonical state: everything the transition function reads and the oracle observes"""
        return json.dumps([self.mode, self.ghost_redef_from if self.mode == DEF_RE else None, self.rdonly, self.fmt, self.dims, [[a[0], a[1], list(a[2]) if not isinstance(a[2], bytes) else a[2].hex(), a[3], (a[4] if len(a) > 4 else a[3])] for a in self.gatts],
                           [[v['name'], v['xtype'], v['dimids'], [[a[0], a[1], list(a[2]) if not isinstance(a[2], bytes) else a[2].hex(), a[3], (a[4] if len(a) > 4 else a[3])] for a in v['atts']], v['nofill']] for v in self.vars],
                           self.fillmode, self.numrecs, sorted((v, sorted(d.items())) for v, d in self.data.items() if d),
                           [(p['kind'], p['v'], p['idx'], p.get('bput', False)) for p in self.pending], self.abuf], default=str, sort_keys=True)

    def abstract(self):
        """coarser key for state counting: mode + flags"""
        return (self.mode, self.rdonly, bool(self.pending), self.abuf is not None, self.numrecs, len(self.dims), len(self.vars), len(self.gatts))

    # ------------------------------------------------------------ expected sweep
    def logical(self):
        un = self.unlimdim()
        def atts(lst):
            out = []
            for i, a in enumerate(lst):
                v = a[2].hex() if isinstance(a[2], bytes) else [x for x in a[2]]
                out.append(dict(n=a[0].encode('utf-8').hex(), t=a[1], len=len(a[2]), id=i, v=v))
            return out
        d = dict(nd=len(self.dims), nv=len(self.vars), ng=len(self.gatts), unlim=un, fmt={1: 1, 2: 2, 5: 5}[self.fmt],
                 nreqs=len(self.pending), busage=self.busage() if self.abuf is not None else D.NC_ENULLABUF,
                 bsize=self.abuf if self.abuf is not None else D.NC_ENULLABUF,
                 dims=[dict(n=x[0].encode('utf-8').hex(), len=(self.numrecs if x[1] is None else x[1]), id=i) for i, x in enumerate(self.dims)],
                 gatts=atts(self.gatts),
                 vars=[dict(n=v['name'].encode('utf-8').hex(), t=v['xtype'], id=i, dimids=list(v['dimids']), atts=atts(v['atts']), nofill=(None if v['nofill'] is None else (1 if v['nofill'] else 0))) for i, v in enumerate(self.vars)],
                 mfp={DEF_NEW: [D.NC_EINDEFINE, D.NC_EINDEFINE], DEF_RE: [D.NC_EINDEFINE, D.NC_EINDEFINE], COLL: [D.NC_ENOTINDEP, 0], INDEP: [0, D.NC_EINDEP]}.get(self.mode))
        ok = 0 if self.vars else D.NC_ENOTVAR
        okc = D.NC_EIOMISMATCH if (self.vars and not self.vars[0]['dimids']) else ok      # a scalar holds one element: the zero-length probe is a size mismatch
        d['mfp2'] = {DEF_NEW: [D.NC_EINDEFINE, D.NC_EINDEFINE], DEF_RE: [D.NC_EINDEFINE, D.NC_EINDEFINE], COLL: [D.NC_ENOTINDEP, okc], INDEP: [ok, D.NC_EINDEP]}.get(self.mode)
        if un >= 0: d['numrecs'] = self.numrecs
        return d

    # ------------------------------------------------------------ the transition function
    def apply(self, op):
        """returns (set of acceptable rcs, staged model or None).  Call commit(staged) when the observed rc is NC_NOERR."""
        m = self.clone()
        rcs = getattr(m, 'op_' + op['op'])(op)
        if not isinstance(rcs, (set, frozenset)): rcs = {rcs}
        return rcs, (m if (0 in rcs or op['op'] in ('close', 'abort') or (op.get('erange') and D.NC_ERANGE in rcs)) else None)   # close/abort release the file whatever they return; NC_ERANGE is a completed call

    # ---- mode changes
    def op_enddef(self, o):
        if not self.indef(): return D.NC_ENOTINDEFINE
        if o.get('neg'): return D.NC_EINVAL
        self._fill_new_vars()
        self.mode = COLL; self.saved = None
        return 0
    op__enddef = op_enddef

    def fill_enabled(self, v):
        return (self.vars[v]['nofill'] is False) or self.findatt(v, '_FillValue') >= 0

    def fillvalue(self, v):
        i = self.findatt(v, '_FillValue')
        if i >= 0 and len(self.vars[v]['atts'][i][2]) >= 1:
            x = self.vars[v]['atts'][i][2]
            return x[0]
        return DEFAULT_FILL[self.vars[v]['xtype']]

    def _fill_new_vars(self):
        """leaving define mode: variables defined in this define-mode session are filled when their fill mode is on"""
        for v in range(self.nvars_old, len(self.vars)):
            if self.vars[v]['nofill'] is not False: continue        # a _FillValue attribute alone does not switch fill mode on
            n = self.inner(v) * (self.numrecs if self.isrec(v) else 1)
            fv = self.fillvalue(v)
            dd = self.data.setdefault(v, {})
            for k in range(n): dd.setdefault(k, fv)
        self.nvars_old = len(self.vars)

    def op_redef(self, o):
        if self.rdonly: return D.NC_EPERM
        if self.indef(): return D.NC_EINDEFINE
        self.saved = dict(dims=copy.deepcopy(self.dims), gatts=copy.deepcopy(self.gatts), vars=copy.deepcopy(self.vars), fillmode=self.fillmode)
        self.nvars_old = len(self.vars)
        self.ghost_redef_from = self.mode      # ghost: does not influence the model, only keeps such states apart in the search
        self.mode = DEF_RE
        return 0

    def op_begin_indep(self, o):
        if self.indef(): return D.NC_EINDEFINE
        self.mode = INDEP; return 0

    def op_end_indep(self, o):
        if self.indef(): return D.NC_EINDEFINE
        self.mode = COLL; return 0

    def op_close(self, o):
        rc = D.NC_EPENDING if self.pending else 0
        self.pending = []; self.abuf = None; self.mode = CLOSED
        return {rc}

    def op_reopen(self, o):
        """close + open for writing: implicit enddef, everything else must survive"""
        self.pending = []; self.abuf = None; self.saved = None
        self.mode = COLL; self.rdonly = False
        for v in self.vars: v['nofill'] = None
        return 0

    def op_abort(self, o):
        if self.mode == DEF_RE and self.saved:
            self.dims = self.saved['dims']; self.gatts = self.saved['gatts']; self.vars = self.saved['vars']; self.fillmode = self.saved['fillmode']
            self.data = {v: d for v, d in self.data.items() if v < len(self.vars)}
        newfile = self.mode == DEF_NEW
        self.pending = []; self.abuf = None; self.mode = CLOSED
        self.removed = newfile
        return {0, D.NC_EPENDING}

    # ---- definitions
    def _defmode_err(self):
        """error for a define-mode-only call issued in data mode"""
        if self.rdonly: return {D.NC_EPERM, D.NC_ENOTINDEFINE}
        return {D.NC_ENOTINDEFINE}

    def op_def_dim(self, o):
        if not self.indef(): return self._defmode_err()
        name = nfc(o['name'])
        if not legal_name(name): return {D.NC_EBADNAME, D.NC_EMAXNAME}
        ln = o['len']
        if ln is None and self.unlimdim() >= 0: return D.NC_EUNLIMIT
        if any(d[0] == name for d in self.dims): return D.NC_ENAMEINUSE
        self.dims.append([name, ln]); return 0

    def op_def_var(self, o):
        if not self.indef(): return self._defmode_err()
        name = nfc(o['name'])
        if not legal_name(name): return {D.NC_EBADNAME, D.NC_EMAXNAME}
        xt = o['xtype']
        if xt < 1 or xt > 11: return D.NC_EBADTYPE
        if xt > 6 and self.fmt != 5: return D.NC_ESTRICTCDF2
        if any(v['name'] == name for v in self.vars): return D.NC_ENAMEINUSE
        dimids = list(o.get('dims') or [])
        if any(d < 0 or d >= len(self.dims) for d in dimids): return D.NC_EBADDIM
        un = self.unlimdim()
        if un >= 0 and un in dimids[1:]: return D.NC_EUNLIMPOS
        self.vars.append(dict(name=name, xtype=xt, dimids=dimids, atts=[], nofill=not self.fillmode))
        return 0

    def op_set_fill(self, o):
        if self.rdonly: return D.NC_EPERM
        if not self.indef(): return D.NC_ENOTINDEFINE
        self.fillmode = bool(o['mode'])
        for v in self.vars: v['nofill'] = not self.fillmode
        return 0

    def op_def_var_fill(self, o):
        if not self.indef(): return self._defmode_err()
        v = o['v']
        if v == -1: return D.NC_EGLOBAL
        if v < 0 or v >= len(self.vars): return D.NC_ENOTVAR
        self.vars[v]['nofill'] = bool(o.get('nofill', 0))
        if not o.get('nofill', 0) and o.get('val') is not None:
            a = ['_FillValue', self.vars[v]['xtype'], [o['val']], att_xsz(self.vars[v]['xtype'], 1)]
            i = self.findatt(v, '_FillValue')
            if i >= 0: self.vars[v]['atts'][i] = a
            else: self.vars[v]['atts'].append(a)
        return 0

    # ---- attributes
    def _varid_err(self, v):
        if v != -1 and (v < 0 or v >= len(self.vars)): return D.NC_ENOTVAR
        return 0

    def op_put_att(self, o):
        if self.rdonly: return D.NC_EPERM
        v = o.get('v', -1)
        e = self._varid_err(v)
        if e: return e
        name = nfc(o['name'])
        if not legal_name(name): return {D.NC_EBADNAME, D.NC_EMAXNAME}
        xt = o['xtype']; vals = o['vals']
        if xt < 1 or xt > 11: return D.NC_EBADTYPE
        if xt > 6 and self.fmt != 5: return D.NC_ESTRICTCDF2
        if name == '_FillValue' and v != -1:
            if xt != self.vars[v]['xtype']: return D.NC_EBADTYPE
            if len(vals) != 1: return D.NC_EINVAL
            if self.mode == DEF_RE and v < self.nvars_old: return D.NC_ELATEFILL
        lst = self.attlist(v)
        i = self.findatt(v, name)
        if i >= 0:
            if not self.indef() and att_xsz(xt, len(vals)) > lst[i][3]: return D.NC_ENOTINDEFINE
            cap = max(lst[i][4] if len(lst[i]) > 4 else lst[i][3], att_xsz(xt, len(vals)))      # ghost: largest size this attribute ever had (keeps such states apart in the search)
            lst[i] = [name, xt, vals, att_xsz(xt, len(vals)), cap]
        else:
            if not self.indef(): return D.NC_ENOTINDEFINE
            lst.append([name, xt, vals, att_xsz(xt, len(vals))])
        # o['erange']: o['vals'] are the values the attribute holds afterwards (fill in place of the unrepresentable ones),
        # the call itself reports NC_ERANGE and is otherwise complete
        return D.NC_ERANGE if o.get('erange') else 0

    def op_del_att(self, o):
        if self.rdonly: return D.NC_EPERM
        if not self.indef(): return D.NC_ENOTINDEFINE
        v = o.get('v', -1)
        e = self._varid_err(v)
        if e: return e
        i = self.findatt(v, nfc(o['name']))
        if i < 0: return D.NC_ENOTATT
        del self.attlist(v)[i]; return 0

    def op_rename_att(self, o):
        if self.rdonly: return D.NC_EPERM
        v = o.get('v', -1)
        e = self._varid_err(v)
        if e: return e
        name = nfc(o['name']); new = nfc(o['newname'])
        if not legal_name(new): return {D.NC_EBADNAME, D.NC_EMAXNAME}
        i = self.findatt(v, name)
        if i < 0: return D.NC_ENOTATT
        if self.findatt(v, new) >= 0:
            return {D.NC_ENAMEINUSE} if new != name else {D.NC_ENAMEINUSE, 0}
        if not self.indef() and len(new.encode()) > len(name.encode()): return D.NC_ENOTINDEFINE
        self.attlist(v)[i][0] = new; return 0

    def op_copy_att(self, o):
        """within one file"""
        if self.rdonly: return D.NC_EPERM
        v = o.get('v', -1); v2 = o.get('v2', -1)
        if self._varid_err(v) or self._varid_err(v2): return D.NC_ENOTVAR
        name = nfc(o['name'])
        i = self.findatt(v, name)
        if i < 0: return D.NC_ENOTATT
        src = self.attlist(v)[i]
        if v == v2: return 0
        j = self.findatt(v2, name)
        dst = self.attlist(v2)
        if j >= 0:
            if not self.indef() and src[3] > dst[j][3]: return D.NC_ENOTINDEFINE
            dst[j] = copy.deepcopy(src)
        else:
            if not self.indef(): return D.NC_ENOTINDEFINE
            dst.append(copy.deepcopy(src))
        return 0

    def op_rename_dim(self, o):
        if self.rdonly: return D.NC_EPERM
        new = nfc(o['name'])
        if not legal_name(new): return {D.NC_EBADNAME, D.NC_EMAXNAME}
        d = o['d']
        if d < 0 or d >= len(self.dims): return D.NC_EBADDIM
        if any(x[0] == new for x in self.dims):
            return {D.NC_ENAMEINUSE} if self.dims[d][0] != new else {D.NC_ENAMEINUSE, 0}
        if not self.indef() and len(new.encode()) > len(self.dims[d][0].encode()): return D.NC_ENOTINDEFINE
        self.dims[d][0] = new; return 0

    def op_rename_var(self, o):
        if self.rdonly: return D.NC_EPERM
        v = o['v']
        if v == -1: return D.NC_EGLOBAL
        if v < 0 or v >= len(self.vars): return D.NC_ENOTVAR
        new = nfc(o['name'])
        if not legal_name(new): return {D.NC_EBADNAME, D.NC_EMAXNAME}
        if any(x['name'] == new for x in self.vars):
            return {D.NC_ENAMEINUSE} if self.vars[v]['name'] != new else {D.NC_ENAMEINUSE, 0}
        if not self.indef() and len(new.encode()) > len(self.vars[v]['name'].encode()): return D.NC_ENOTINDEFINE
        self.vars[v]['name'] = new; return 0

    # ---- data access (valid regions only; argument errors are layered by the caller through 'bad')
    def _access_err(self, o, isput, blocking, coll):
        """documented precedence: EBADID, EPERM, EINDEFINE, (EINDEP|ENOTINDEP), ENOTVAR, ECHAR, EINVALCOORDS, EEDGE, ESTRIDE"""
        errs = []
        if isput and self.rdonly: return {D.NC_EPERM}
        if blocking:
            if self.indef(): return {D.NC_EINDEFINE}
            modeerr = None
            if coll and self.mode == INDEP: modeerr = D.NC_EINDEP
            if not coll and self.mode == COLL: modeerr = D.NC_ENOTINDEP
            if modeerr is not None:
                # order relative to ENOTVAR/ECHAR undocumented: accept either when both apply
                out = {modeerr}
                bad = o.get('bad')
                if bad == 'varid': out.add(D.NC_ENOTVAR)
                if bad == 'char': out.add(D.NC_ECHAR)
                return out
        bad = o.get('bad')
        if bad == 'varid': return {D.NC_ENOTVAR}
        if bad == 'char': return {D.NC_ECHAR}
        if bad == 'coords': return {D.NC_EINVALCOORDS}
        if bad == 'edge': return {D.NC_EEDGE}
        return None

    def _idx(self, o):
        v = o['v']
        sh = self.shape(v)
        return D.region_indices(sh, o['start'], o['count'], o.get('stride'))

    def op_put(self, o):
        e = self._access_err(o, True, True, o.get('coll', 0))
        if e: return e
        idx = self._idx(o)
        dd = self.data.setdefault(o['v'], {})
        for i, x in zip(idx, o['vals']): dd[i] = x
        if self.isrec(o['v']) and idx: self.numrecs = max(self.numrecs, max(idx) // self.inner(o['v']) + 1)
        return 0

    def _read_bound_err(self, o):
        # reads of a record variable are bounded by the current number of records
        v = o['v']
        if v < 0 or v >= len(self.vars) or not self.isrec(v) or o.get('bad'): return None
        s0, c0 = o['start'][0], o['count'][0]
        if s0 >= self.numrecs and (c0 > 0 or s0 > self.numrecs): return {D.NC_EINVALCOORDS}
        if s0 + c0 > self.numrecs: return {D.NC_EEDGE}
        return None

    def op_get(self, o):
        e = self._access_err(o, False, True, o.get('coll', 0))
        if e: return e
        e = self._read_bound_err(o)
        if e: return e
        return 0

    def expected_get(self, o):
        dd = self.data.get(o['v'], {})
        return [dd.get(i) for i in self._idx(o)]

    def op_ipost(self, o):
        """iput / iget / bput post"""
        kind = o['kind']
        isput = kind in ('iput', 'bput')
        e = self._access_err(o, isput, False, 0)
        if e: return e
        if not isput:
            e = self._read_bound_err(o)
            if e: return e
        idx = self._idx(o)
        nbytes = len(idx) * D.XT_SIZE[self.vars[o['v']]['xtype']]
        if kind == 'bput':
            if self.abuf is None: return D.NC_ENULLABUF
            if self.abuf - self.busage() < nbytes: return D.NC_EINSUFFBUF
        if not idx: return 0      # zero-length request is not queued
        self.pending.append(dict(kind='put' if isput else 'get', v=o['v'], idx=idx, vals=o.get('vals'), bput=(kind == 'bput'), nbytes=nbytes, slot=o.get('slot')))
        return 0

    def _complete(self, sel):
        for p in sel:
            if p['kind'] == 'put':
                dd = self.data.setdefault(p['v'], {})
                for i, x in zip(p['idx'], p['vals']): dd[i] = x
                if self.isrec(p['v']) and p['idx']: self.numrecs = max(self.numrecs, max(p['idx']) // self.inner(p['v']) + 1)
        self.pending = [p for p in self.pending if p not in sel]

    def op_wait(self, o):
        """kind ALL only (subset waits are C02's business); o['all'] = 1 for wait_all"""
        if self.indef(): return D.NC_EINDEFINE
        if o.get('all', 1) and self.mode == INDEP: return D.NC_EINDEP
        if not o.get('all', 1) and self.mode == COLL: return D.NC_ENOTINDEP
        if o.get('slots') is not None:
            sel = [p for p in self.pending if p.get('slot') in o['slots']]
            if len(sel) != len(o['slots']): return D.NC_EINVAL_REQUEST
            self._complete(sel); return 0
        self._complete(list(self.pending)); return 0

    def op_cancel(self, o):
        if o.get('slots') is not None:
            sel = [p for p in self.pending if p.get('slot') in o['slots']]
            if len(sel) != len(o['slots']): return D.NC_EINVAL_REQUEST
            self.pending = [p for p in self.pending if p not in sel]; return 0
        self.pending = []; return 0

    def op_sync(self, o):
        if self.indef(): return D.NC_EINDEFINE
        return 0

    def op_flush(self, o):
        return {0, D.NC_EINDEFINE} if self.indef() else 0

    def op_sync_numrecs(self, o):
        if self.indef(): return D.NC_EINDEFINE
        hasrec = any(self.isrec(v) for v in range(len(self.vars)))
        if self.rdonly and hasrec: return {D.NC_EPERM, 0}
        return 0

    def op_fill_var_rec(self, o):
        if self.rdonly: return D.NC_EPERM
        if self.indef(): return D.NC_EINDEFINE
        v = o['v']
        if v == -1: return D.NC_EGLOBAL
        if v < 0 or v >= len(self.vars): return D.NC_ENOTVAR
        cand = set()
        if not self.isrec(v): cand.add(D.NC_ENOTRECVAR)
        elif self.vars[v]['nofill'] and self.findatt(v, '_FillValue') < 0: cand.add(D.NC_ENOTFILL)
        if self.mode == INDEP: cand.add(D.NC_EINDEP)
        if cand: return cand
        unknown = self.vars[v]['nofill'] is None and self.findatt(v, '_FillValue') < 0
        rec = o['rec']
        fv = self.fillvalue(v)
        n = self.inner(v)
        dd = self.data.setdefault(v, {})
        for k in range(rec * n, (rec + 1) * n): dd[k] = fv
        self.numrecs = max(self.numrecs, rec + 1)
        # the fill mode of variables of an opened file is not stored in the file: either answer is acceptable
        return {0, D.NC_ENOTFILL} if unknown else 0

    def op_buffer_attach(self, o):
        if o['size'] <= 0: return D.NC_ENULLBUF
        if self.abuf is not None: return D.NC_EPREVATTACHBUF
        self.abuf = o['size']; return 0

    def op_buffer_detach(self, o):
        if self.abuf is None: return D.NC_ENULLABUF
        if any(p.get('bput') for p in self.pending): return D.NC_EPENDINGBPUT
        self.abuf = None; return 0

    def op_sweep(self, o): return 0
