"""Exact reference for numeric type conversion and range checking (C09).  Python ints / floats / fractions only."""
import struct, math

# (kind, bits, signed)
EXT = {1: ('i', 8, True), 3: ('i', 16, True), 4: ('i', 32, True), 5: ('f', 32, True), 6: ('f', 64, True),
       7: ('i', 8, False), 8: ('i', 16, False), 9: ('i', 32, False), 10: ('i', 64, True), 11: ('i', 64, False)}
MEM = {'schar': ('i', 8, True), 'uchar': ('i', 8, False), 'short': ('i', 16, True), 'ushort': ('i', 16, False), 'int': ('i', 32, True), 'uint': ('i', 32, False),
       'long': ('i', 64, True), 'longlong': ('i', 64, True), 'ulonglong': ('i', 64, False), 'float': ('f', 32, True), 'double': ('f', 64, True)}
EXT_FILL = {1: -127, 3: -32767, 4: -2147483647, 5: 9.9692099683868690e+36, 6: 9.9692099683868690e+36, 7: 255, 8: 65535, 9: 4294967295, 10: -9223372036854775806, 11: 18446744073709551614}
MEM_FILL = {'schar': [-127], 'uchar': [255], 'short': [-32767], 'ushort': [65535], 'int': [-2147483647], 'uint': [4294967295],
            'long': [-9223372036854775806, -2147483647], 'longlong': [-9223372036854775806], 'ulonglong': [18446744073709551614],
            'float': [9.9692099683868690e+36], 'double': [9.9692099683868690e+36]}
FLT_MAX = 3.4028234663852886e+38
FLT_HALF_ULP_MAX = 2.0 ** 103        # half an ulp at FLT_MAX


def f32(x):
    """round a python float to float32 (IEEE round-to-nearest-even); overflow -> inf"""
    if x != x: return x
    try: return struct.unpack('>f', struct.pack('>f', x))[0]
    except OverflowError: return math.inf if x > 0 else -math.inf


def irange(t):
    k, b, s = t
    return (-(1 << (b - 1)), (1 << (b - 1)) - 1) if s else (0, (1 << b) - 1)


def int_to_f32_candidates(v):
    """float32 neighbours of an integer (direct single rounding vs rounding through double may differ for |v| > 2^53)"""
    d = float(v)
    c = {f32(d)}
    if abs(v) > (1 << 53):
        # exact rounding of the integer itself
        lo = f32(d);
        for cand in (lo, math.nextafter(lo, math.inf) if lo == lo else lo, math.nextafter(lo, -math.inf)):
            cf = f32(cand)
            c.add(cf)
        # keep only the (at most two) nearest to v
        c = set(sorted(c, key=lambda z: abs(int(z) - v) if abs(z) != math.inf else 1 << 200)[:2])
    return c


def convert(v, src, dst, exempt=False):
    """returns (may_ok: set of acceptable converted values, may_erange: bool)
    src/dst: (kind, bits, signed).  exempt: the CDF-1/2 signed-byte/unsigned-char exemption applies to this pair"""
    sk, sb, ss = src; dk, db, ds = dst
    if sk == 'i':
        if dk == 'i':
            lo, hi = irange(dst)
            if exempt:
                w = v & 0xFF
                return ({w - 256 if (ds and w > 127) else w}, False)
            if lo <= v <= hi: return ({v}, False)
            return (set(), True)
        if db == 64: return ({float(v)}, False)
        return (int_to_f32_candidates(v), False)
    # floating source
    if dk == 'f':
        if v != v: return ({v}, False)
        if abs(v) == math.inf: return ({v}, True)                     # zone (iii): +-Inf into any floating type
        if db == 64: return ({v}, False)
        if abs(v) > FLT_MAX:
            if abs(v) < FLT_MAX + FLT_HALF_ULP_MAX: return ({math.copysign(FLT_MAX, v)}, True)   # zone (ii)
            return (set(), True)
        return ({f32(v)}, False)
    lo, hi = irange(dst)
    if v != v or abs(v) == math.inf: return (set(), True)
    t = int(v)                       # truncation toward zero (exact)
    from fractions import Fraction
    fv = Fraction(v)
    if lo <= fv <= hi: return ({t}, False)
    if lo - 1 < fv < lo or hi < fv < hi + 1: return ({t}, True)      # fringe zone (i): value truncates into range
    if db == 64 and fv == hi + 1: return ({hi}, True)                 # zone (iv): 2^63 / 2^64 is the floating image of the type's maximum
    return (set(), True)


def boundary_ints(dst, src):
    """integers worth trying when converting into dst from src (both descriptors); filtered to src's range if src is integral"""
    S = {0, 1, -1, 2, -2}
    for t in (dst, src):
        if t[0] == 'i':
            lo, hi = irange(t)
            for d in (-2, -1, 0, 1, 2): S.add(lo + d); S.add(hi + d)
    for k in range(0, 65):
        for d in (-1, 0, 1): S.add((1 << k) + d); S.add(-(1 << k) + d)
    if src[0] == 'i':
        lo, hi = irange(src)
        S = {x for x in S if lo <= x <= hi}
    return sorted(S)


def boundary_floats(dst, src):
    """floating values worth trying when the source is a floating type"""
    S = set()
    for x in boundary_ints(dst, ('i', 128, True)):
        if abs(x) > (1 << 70): continue
        for d in (0.0, 0.5, -0.5, 1.0, -1.0, 0.25, -0.75):
            try: S.add(float(x) + d)
            except OverflowError: pass
    S |= {0.0, -0.0, 0.5, -0.5, 1.5, -1.5, 255.9, -128.9, 65535.9, 2147483647.5, -2147483648.5, 4294967295.5,
          FLT_MAX, -FLT_MAX, math.nextafter(FLT_MAX, math.inf), math.nextafter(FLT_MAX, 0), FLT_MAX + FLT_HALF_ULP_MAX / 2, FLT_MAX + FLT_HALF_ULP_MAX, -(FLT_MAX + FLT_HALF_ULP_MAX),
          1.7976931348623157e308, -1.7976931348623157e308, 5e-324, 2.2250738585072014e-308, 1.401298464324817e-45, 1e-40, 1e30, -1e30, 9.2233720368547758e18, 1.8446744073709552e19,
          9.223372036854775e18, 1.8446744073709550e19, -9.2233720368547758e18, -9.223372036854777e18,
          math.inf, -math.inf, math.nan}
    if src[1] == 32:
        S = {f32(x) for x in S}
        S = {x for x in S}
    out = sorted([x for x in S if x == x]) + [math.nan]
    # -0.0 and 0.0 compare equal in a set; keep both explicitly
    if 0.0 in S: out.append(-0.0)
    return out
