"""Boring sequential reference for variable data: flat arrays of optional values + region arithmetic."""
import itertools

NC_BYTE, NC_CHAR, NC_SHORT, NC_INT, NC_FLOAT, NC_DOUBLE, NC_UBYTE, NC_USHORT, NC_UINT, NC_INT64, NC_UINT64 = range(1, 12)
XT_NAME = {1: 'byte', 2: 'char', 3: 'short', 4: 'int', 5: 'float', 6: 'double', 7: 'ubyte', 8: 'ushort', 9: 'uint', 10: 'int64', 11: 'uint64'}
XT_SIZE = {1: 1, 2: 1, 3: 2, 4: 4, 5: 4, 6: 8, 7: 1, 8: 2, 9: 4, 10: 8, 11: 8}
XT_MEM = {1: 'schar', 2: 'text', 3: 'short', 4: 'int', 5: 'float', 6: 'double', 7: 'uchar', 8: 'ushort', 9: 'uint', 10: 'longlong', 11: 'ulonglong'}
MEM_SIZE = {'text': 1, 'schar': 1, 'uchar': 1, 'short': 2, 'int': 4, 'long': 8, 'float': 4, 'double': 8, 'ushort': 2, 'uint': 4, 'longlong': 8, 'ulonglong': 8}
NUM_MEMS = ['schar', 'uchar', 'short', 'int', 'long', 'float', 'double', 'ushort', 'uint', 'longlong', 'ulonglong']

# netCDF error codes used by the models
NC_NOERR = 0
NC_EBADID = -33; NC_ENFILE = -34; NC_EEXIST = -35; NC_EINVAL = -36; NC_EPERM = -37; NC_ENOTINDEFINE = -38; NC_EINDEFINE = -39
NC_EINVALCOORDS = -40; NC_EMAXDIMS = -41; NC_ENAMEINUSE = -42; NC_ENOTATT = -43; NC_EMAXATTS = -44; NC_EBADTYPE = -45; NC_EBADDIM = -46
NC_EUNLIMPOS = -47; NC_EMAXVARS = -48; NC_ENOTVAR = -49; NC_EGLOBAL = -50; NC_ENOTNC = -51; NC_ESTS = -52; NC_EMAXNAME = -53
NC_EUNLIMIT = -54; NC_ENORECVARS = -55; NC_ECHAR = -56; NC_EEDGE = -57; NC_ESTRIDE = -58; NC_EBADNAME = -59; NC_ERANGE = -60
NC_ENOMEM = -61; NC_EVARSIZE = -62; NC_EDIMSIZE = -63; NC_ETRUNC = -64; NC_EAXISTYPE = -65
NC_ELATEFILL = -122
NC_ESMALL = -201; NC_ENOTINDEP = -202; NC_EINDEP = -203; NC_EFILE = -204; NC_EREAD = -205; NC_EWRITE = -206; NC_EOFILE = -207
NC_EMULTITYPES = -208; NC_EIOMISMATCH = -209; NC_ENEGATIVECNT = -210; NC_EUNSPTETYPE = -211; NC_EINVAL_REQUEST = -212
NC_EAINT_TOO_SMALL = -213; NC_ENOTSUPPORT = -214; NC_ENULLBUF = -215; NC_EPREVATTACHBUF = -216; NC_ENULLABUF = -217
NC_EPENDINGBPUT = -218; NC_EINSUFFBUF = -219; NC_ENOENT = -220; NC_EINTOVERFLOW = -221; NC_ENOTENABLED = -222
NC_EBAD_FILE = -223; NC_ENO_SPACE = -224; NC_EQUOTA = -225; NC_ENULLSTART = -226; NC_ENULLCOUNT = -227
NC_EINVAL_CMODE = -228; NC_ETYPESIZE = -229; NC_ETYPE_MISMATCH = -230; NC_ETYPESIZE_MISMATCH = -231; NC_ESTRICTCDF2 = -232
NC_ENOTRECVAR = -233; NC_ENOTFILL = -234; NC_EINVAL_OMODE = -235; NC_EPENDING = -236; NC_EMAX_REQ = -237; NC_EBADLOG = -238
NC_EFLUSHED = -239; NC_EADIOS = -240
NC_EMULTIDEFINE = -250


def gen(tag, k, scale=1):
    """the executor's deterministic data generator"""
    return ((tag * 17 + k) % 97 + 1) * scale


def nelems(count):
    n = 1
    for c in count: n *= max(c, 0)
    return n


def region_indices(shape, start, count, stride=None):
    """flat (row-major over `shape`, record dim included with its index) indices in canonical request order.
    shape[0] may be None for a record variable (no bound; index = rec * inner + ...)."""
    nd = len(shape)
    if nd == 0: return [0]
    stride = stride or [1] * nd
    inner = [1] * nd
    for d in range(nd - 2, -1, -1): inner[d] = inner[d + 1] * (shape[d + 1] if shape[d + 1] is not None else 1)
    ranges = [range(start[d], start[d] + count[d] * stride[d], stride[d]) if count[d] > 0 else range(0) for d in range(nd)]
    return [sum(i * m for i, m in zip(idx, inner)) for idx in itertools.product(*ranges)]


def imap_offsets(count, imap):
    """buffer slot of each element in canonical order (what the executor's arena does)"""
    return [sum(i * m for i, m in zip(idx, imap)) for idx in itertools.product(*[range(c) for c in count])]


class VarModel:
    __slots__ = ('name', 'xtype', 'dimids', 'shape', 'isrec', 'inner', 'vals')

    def __init__(self, name, xtype, dimids, shape, isrec):
        self.name = name; self.xtype = xtype; self.dimids = list(dimids); self.shape = list(shape); self.isrec = isrec
        n = 1
        for s in (self.shape[1:] if isrec else self.shape): n *= s
        self.inner = n            # elements per record (record var) or total (fixed)
        self.vals = {}            # flat index -> value ; missing = undefined

    def full_shape(self, numrecs):
        return ([numrecs] + self.shape[1:]) if self.isrec else list(self.shape)


class DataModel:
    """dims: list of (name, len or None for unlimited); vars: list of (name, xtype, dimids)"""
    def __init__(self, dims, vars_):
        self.dims = list(dims); self.numrecs = 0; self.vars = []
        for (name, xt, dimids) in vars_: self.add_var(name, xt, dimids)

    def add_var(self, name, xt, dimids):
        shape = [self.dims[d][1] for d in dimids]
        isrec = bool(dimids) and shape[0] is None
        self.vars.append(VarModel(name, xt, dimids, shape, isrec))
        return len(self.vars) - 1

    def put(self, v, start, count, stride, values):
        var = self.vars[v]
        idx = region_indices(var.shape, start, count, stride)
        assert len(idx) == len(values), (len(idx), len(values))
        for i, x in zip(idx, values): var.vals[i] = x
        if var.isrec and idx:
            top = start[0] + (count[0] - 1) * (stride[0] if stride else 1) + 1
            if count[0] > 0 and nelems(count) > 0: self.numrecs = max(self.numrecs, top)
        return idx

    def put_idx(self, v, idx, values):
        var = self.vars[v]
        for i, x in zip(idx, values): var.vals[i] = x
        if var.isrec and idx: self.numrecs = max(self.numrecs, max(idx) // var.inner + 1)

    def get(self, v, start, count, stride=None):
        var = self.vars[v]
        return [var.vals.get(i) for i in region_indices(var.shape, start, count, stride)]

    def get_all(self, v):
        var = self.vars[v]
        n = var.inner * (self.numrecs if var.isrec else 1)
        return [var.vals.get(i) for i in range(n)]

    def nelems_all(self, v):
        var = self.vars[v]
        return var.inner * (self.numrecs if var.isrec else 1)


def same(a, b):
    """value equality tolerant of int/float representation (never of magnitude)"""
    if a is None or b is None: return True     # undefined content is never compared
    if isinstance(a, float) and a != a: return isinstance(b, float) and b != b
    return a == b


def cmp_lists(expect, got):
    """returns index of first mismatch or -1; expect may contain None (undefined)"""
    if len(expect) != len(got): return 0 if True else -1
    for i, (e, g) in enumerate(zip(expect, got)):
        if not same(e, g): return i
    return -1
