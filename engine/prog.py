"""Prog = a Case built together with its FileModel; checkpoints are points where the file is promised to be up to date."""
from . import cdf, fileck
from .runner import Case
from .bfs import emit_std
from .script import first_frame
from .model.filemodel import FileModel
from .model import data as D


class Prog:
    """a Case built together with its FileModel; checkpoints = points where the file is promised to be up to date"""
    def __init__(self, name, np=1, fmt=1, hints=None, env=None, path='a.nc', create=True):
        from .script import merge_cfg
        hints, env = merge_cfg(hints, env)
        self.case = Case(name, np); self.np = np; self.m = FileModel(fmt); self.path = path
        self.cps = []; self.rc_lines = []; self.tag = 0; self.prev = None; self.reads = []
        if env: self.case.op('*', 'env', **env)
        if create: self.rc_lines.append(self.case.op('*', 'create', f=0, path=path, fmt=fmt, hints=hints))

    def do(self, o, expect=0):
        rcs, st = self.m.apply(o)
        assert expect in rcs, (o, rcs, self.case.name)
        if expect == 0: self.m = st
        if o['op'] == 'put' and self.np > 1:
            # rank 0 writes, the others take part with a zero-length request
            ln = emit_std(self.case, 0, o, None)
            z = dict(o)
            if o['count']: z['count'] = [0] * len(o['count']); z['vals'] = []
            emit_std(self.case, list(range(1, self.np)), z, None)
        else:
            ln = emit_std(self.case, '*', o, None)
        self.rc_lines.append((ln, expect))
        return ln

    def write_all(self, nrec=2):
        """write every element of every variable (record vars: nrec records)"""
        for v in range(len(self.m.vars)):
            var = self.m.vars[v]; sh = self.m.shape(v)
            if var['xtype'] == D.NC_CHAR: mem = 'text'
            else: mem = D.XT_MEM[var['xtype']]
            if self.m.isrec(v): sh = [nrec] + sh[1:]
            n = 1
            for s in sh: n *= s
            self.tag += 1
            vals = [((self.tag * 7 + k) % 90) + 1 for k in range(n)]
            self.do(dict(op='put', v=v, start=[0] * len(sh), count=sh, vals=vals, coll=1, mem=mem, form='vara' if sh else 'var1'))

    def read_all(self, label='readback', coll=1):
        """read every variable through the API on all ranks and compare with the model"""
        for v in range(len(self.m.vars)):
            var = self.m.vars[v]
            mem = 'text' if var['xtype'] == D.NC_CHAR else D.XT_MEM[var['xtype']]
            n = self.m.inner(v) * (self.m.numrecs if self.m.isrec(v) else 1)
            if n == 0: continue
            dd = self.m.data.get(v, {})
            ln = self.case.op('*', 'get', f=0, form='var', v=v, coll=coll, mem=mem)
            self.reads.append((ln, v, [dd.get(i) for i in range(n)], label))

    def checkpoint(self, label, closed=False):
        c = self.case
        sw = inf = None
        if not closed:
            sw = c.op('*', 'sweep', f=0); inf = c.op('*', 'inq_file_info', f=0)
        c.op('*', 'barrier'); sn = c.op(0, 'snap', path=self.path); c.op('*', 'barrier')
        self.cps.append(dict(label=label, sweep=sw, info=inf, snap=sn, model=self.m.clone()))

    def judge(self, r, env_hints=None, fresh_align=True):
        out = []
        if r.status != 'ok': return [((r.status, 'case', first_frame(r.detail)), r.detail[:800])]
        for item in self.rc_lines:
            ln, exp = item if isinstance(item, tuple) else (item, 0)
            for k in r.ranks:
                o = r.r(k, ln)
                if o is not None and o.rc != exp: out.append((('rc', o.get('op'), 'expected %d' % exp), 'line %d %s rc=%d expected %d' % (ln, o.get('op'), o.rc, exp)))
        if out: return out
        for ln, v, exp, label in self.reads:
            for k in r.ranks:
                o = r.r(k, ln)
                if o is None: continue
                if o.rc != 0: out.append((('rc', 'get_var', label), 'line %d: get_var(%d) at %s returned %d' % (ln, v, label, o.rc))); break
                got = o.vals()
                if len(got) != len(exp) or D.cmp_lists(exp, got) >= 0:
                    out.append((('value', 'get_var', label), 'line %d rank %d at %s: var %d reads %s, model %s' % (ln, k, label, v, got[:16], exp[:16]))); break
        prev = None
        for cp in self.cps:
            s = r.r(0, cp['snap'])
            if s.rc != 0: out.append((('file_missing', cp['label'], ''), 'no file at checkpoint %s' % cp['label'])); continue
            try:
                f = cdf.decode(bytes.fromhex(s.get('hex', '')), with_data=True, strict=True)
            except cdf.CDFError as e:
                out.append((('not_wellformed', cp['label'], e.kind), 'at %s: independent decoder rejects the file: %s' % (cp['label'], e))); continue
            for cause, text in fileck.check_logical(cp['model'], f):
                out.append((('content', cp['label'], cause), 'at %s: %s' % (cp['label'], text)))
            sw = r.r(0, cp['sweep']).json() if cp['sweep'] else None
            info = fileck.parse_info(r.r(0, cp['info'])) if cp['info'] else None
            align = fileck.align_from_info(info) if info else None
            lo, cur = fileck.check_layout(f, sw, int(s.get('size', 0)), align, prev)
            for cause, text in lo: out.append((('layout', cp['label'], cause), 'at %s: %s' % (cp['label'], text)))
            if info is not None and env_hints:
                for k, v in env_hints.items():
                    want = (int(v) + 3) // 4 * 4
                    if info.get(k) is None or int(info.get(k)) != want:
                        out.append((('hint_not_in_force', cp['label'], k), 'at %s: inq_file_info reports %s=%s, PNETCDF_HINTS asked for %s (effective %d)' % (cp['label'], k, info.get(k), v, want)))
            prev = cur
        return out


