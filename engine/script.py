"""Script = a Case under construction + the reference data model + per-op expectations (closures).
Used by most data-path checks.  Expectations are evaluated after the run by judge()."""
from .runner import Case, hexname
from .model import data as D
from . import cdf


def scale_for(xtype, mem):
    w = min(D.XT_SIZE[xtype], D.MEM_SIZE[mem])
    return 1 if w == 1 else (259 if w == 2 else 65539)


# configuration deviation applied to every Script / Prog built while it is set (C10)
GLOBAL = dict(hints=None, env=None)


def merge_cfg(hints, env):
    h = ';'.join(x for x in (hints, GLOBAL['hints']) if x) or None
    e = dict(env or {})
    if GLOBAL['env']:
        for k, v in GLOBAL['env'].items():
            if k == 'PNETCDF_HINTS' and k in e: e[k] = e[k] + ';' + v
            else: e.setdefault(k, v)
    return h, (e or None)


class Script:
    def __init__(self, name, np=1, fmt=1, dims=(), vars_=(), opts=None, hints=None, env=None, path='a.nc', fill=False, define=True):
        """dims: [(name, len|None)], vars_: [(name, xtype, dimids)]"""
        hints, env = merge_cfg(hints, env)
        self.case = Case(name, np, opts)
        self.np = np; self.fmt = fmt; self.path = path
        self.model = D.DataModel(dims, vars_)
        self.expect = []          # (line, ranks or None=all that ran it, fn(OpResult, rank) -> None | (sig, detail))
        self.get_exp = {}         # line of a get -> expected values (None = undefined content)
        self.hints = hints
        self.nevals = 0
        if env: self.case.op('*', 'env', **env)
        if define:
            self.op('*', 'create', f=0, path=path, fmt=fmt, hints=hints)
            for (n, l) in dims:
                if l is None: self.op('*', 'def_dim', name=n, unlim=1)
                else: self.op('*', 'def_dim', name=n, len=l)
            for (n, xt, dimids) in vars_:
                self.op('*', 'def_var', name=n, xtype=D.XT_NAME[xt], dims=list(dimids) if dimids else None)
            if not fill: pass
            self.op('*', 'enddef')

    # ---- plumbing ----
    def op(self, ranks, op, expect_rc=0, **kw):
        ln = self.case.op(ranks, op, **kw)
        if expect_rc is not None:
            def chk(r, rank, ln=ln, op=op, exp=expect_rc):
                if r.rc != exp: return (('rc', op, 'expected %d' % exp), 'line %d %s: rc=%d expected %d' % (ln, op, r.rc, exp))
            self.expect.append((ln, None, chk))
        return ln

    def add_expect(self, ln, fn, ranks=None):
        self.expect.append((ln, ranks, fn))

    # ---- data ops ----
    def values_for(self, v, n, tag, mem, scale=None):
        xt = self.model.vars[v].xtype
        sc = scale or scale_for(xt, mem)
        return [D.gen(tag, k, sc) for k in range(n)], sc

    def put(self, ranks, v, start=None, count=None, stride=None, form='vara', mem=None, lay=None, api=None, coll=0, tag=1,
            imap=None, boxes=None, nb=None, req=None, expect_rc=0, update=True, extra=None, scale=None):
        """boxes: list of (start, count|None) for varn.  Returns (line, idx list)."""
        var = self.model.vars[v]
        mem = mem or D.XT_MEM[var.xtype]
        nd = len(var.shape)
        kw = dict(f=0, form=form, v=v, mem=mem, coll=coll, tag=tag)
        if form == 'var':
            idx = list(range(self.model.nelems_all(v)))
        elif form == 'var1':
            idx = D.region_indices(var.shape, start, [1] * nd, None); kw['s'] = start if nd else None
        elif form == 'varn':
            idx = []
            kw['n'] = len(boxes); kw['nd'] = nd
            for i, (s, c) in enumerate(boxes):
                kw['s%d' % i] = s
                kw['c%d' % i] = 'NULL' if c is None else c
                idx += D.region_indices(var.shape, s, c if c is not None else [1] * nd, None)
        else:
            idx = D.region_indices(var.shape, start, count, stride)
            kw['s'] = start if nd else None; kw['c'] = count if nd else None
            if form in ('vars', 'varm') and stride is not None: kw['st'] = stride
            if form == 'varm' and imap is not None: kw['imap'] = imap
        vals, sc = self.values_for(v, len(idx), tag, mem, scale)
        kw['scale'] = sc
        if lay: kw['lay'] = lay
        if api: kw['api'] = api
        if nb: kw['nb'] = nb; kw['req'] = req
        if extra: kw.update(extra)
        ln = self.op(ranks, 'put', expect_rc=expect_rc, **kw)
        if update and expect_rc == 0 and not nb:
            self.model.put_idx(v, idx, vals)
        if not nb:
            def chk(r, rank, ln=ln):
                if r.rc == 0 and r.get('mod') not in (None, '0'):
                    return (('buffer_modified', 'put', form), 'line %d: user write buffer modified by blocking put' % ln)
            self.expect.append((ln, None, chk))
        self.nevals += 1
        return ln, idx, vals

    def get(self, ranks, v, start=None, count=None, stride=None, form='vara', mem=None, lay=None, api=None, coll=0,
            imap=None, boxes=None, expect=None, what='get', extra=None):
        """adds a get and checks the values against the model *as of now* (or `expect`)."""
        var = self.model.vars[v]
        mem = mem or D.XT_MEM[var.xtype]
        nd = len(var.shape)
        kw = dict(f=0, form=form, v=v, mem=mem, coll=coll)
        if form == 'var':
            idx = list(range(self.model.nelems_all(v)))
        elif form == 'var1':
            idx = D.region_indices(var.shape, start, [1] * nd, None); kw['s'] = start if nd else None
        elif form == 'varn':
            idx = []
            kw['n'] = len(boxes); kw['nd'] = nd
            for i, (s, c) in enumerate(boxes):
                kw['s%d' % i] = s
                kw['c%d' % i] = 'NULL' if c is None else c
                idx += D.region_indices(var.shape, s, c if c is not None else [1] * nd, None)
        else:
            idx = D.region_indices(var.shape, start, count, stride)
            kw['s'] = start if nd else None; kw['c'] = count if nd else None
            if form in ('vars', 'varm') and stride is not None: kw['st'] = stride
            if form == 'varm' and imap is not None: kw['imap'] = imap
        if lay: kw['lay'] = lay
        if api: kw['api'] = api
        if extra: kw.update(extra)
        exp = expect if expect is not None else [var.vals.get(i) for i in idx]
        ln = self.op(ranks, 'get', **kw)
        self.get_exp[ln] = exp
        desc = '%s form=%s mem=%s lay=%s coll=%d' % (what, form, mem, lay, coll)

        def chk(r, rank, ln=ln, exp=exp, desc=desc, form=form):
            if r.rc != 0: return None
            got = r.vals()
            if r.get('guard') != '0':
                return (('guard', 'get', form), 'line %d %s: bytes outside the buffer type map were modified' % (ln, desc))
            if len(got) != len(exp):
                return (('count', 'get', form), 'line %d %s: %d values, expected %d' % (ln, desc, len(got), len(exp)))
            i = D.cmp_lists(exp, got)
            if i >= 0:
                return (('value', 'get', what), 'line %d rank %d %s: element %d is %r, model says %r (got=%s exp=%s)' % (ln, rank, desc, i, got[i], exp[i], got[:24], exp[:24]))
        self.expect.append((ln, None, chk))
        self.nevals += 1
        return ln

    def get_all(self, ranks, v, coll=0, what='readback'):
        return self.get(ranks, v, form='var', coll=coll, what=what)

    # ---- end of case: close, reopen, re-read everything, decode the file independently ----
    def finish(self, reopen=True, decode=True, in_indep=False):
        if in_indep: self.op('*', 'end_indep')
        self.op('*', 'close', f=0)
        if reopen:
            self.op('*', 'open', f=0, path=self.path)
            for v in range(len(self.model.vars)):
                self.get('*', v, form='var', coll=1, what='after-reopen')
            self.op('*', 'close', f=0)
        self.op('*', 'barrier')
        ln = self.op(0, 'snap', path=self.path)
        if decode:
            m = self.model
            snapshot = [(list(m.get_all(v)), m.vars[v].xtype) for v in range(len(m.vars))]
            numrecs = m.numrecs

            def chk(r, rank, snapshot=snapshot, numrecs=numrecs):
                if r.get('hex') == 'TOOBIG':
                    return (('file_size', 'file', 'unexpectedly large'), 'file is %s bytes, far larger than its content needs' % r.get('size'))
                try:
                    f = cdf.decode(bytes.fromhex(r.get('hex', '')), with_data=True, strict=True)
                except cdf.CDFError as e:
                    return (('decode', 'file', 'not well-formed'), 'independent decoder rejects the file: %s' % e)
                if any(v.is_record for v in f.vars) and f.numrecs != numrecs:
                    return (('numrecs', 'file', 'header'), 'file numrecs=%d model=%d' % (f.numrecs, numrecs))
                for v, (exp, xt) in enumerate(snapshot):
                    got = f.data.get(v)
                    if got is None: continue
                    got = list(got) + [None] * (len(exp) - len(got))
                    i = D.cmp_lists(exp, got[:len(exp)])
                    if i >= 0:
                        return (('value', 'file', 'decoded'), 'decoded file: var %d element %d is %r, model says %r' % (v, i, got[i], exp[i]))
            self.expect.append((ln, [0], chk))
        ln = self.op('*', 'ledger', expect_rc=None)

        def led(r, rank, ln=ln):
            # C17's invariant on every program of this check: once every file is closed the library holds no memory and no MPI object
            bad = [k for k in ('malloc', 'types', 'comms', 'infos', 'files', 'reqs') if r.get(k) not in (None, '0')]
            if bad and r.get('nopen') == '0':
                return (('leak', 'ledger', ','.join(bad)), 'line %d rank %d: after the last close the library still holds %s' % (ln, rank, {k: r.get(k) for k in bad}))
        self.expect.append((ln, None, led))
        return self

    def judge(self, res):
        """res: CaseResult.  Returns list of (sig, detail)."""
        out = []
        if res.status != 'ok':
            return [((res.status, 'case', first_frame(res.detail)), res.detail[:1500])]
        for ln, ranks, fn in self.expect:
            for rank, lines in res.ranks.items():
                if ranks is not None and rank not in ranks: continue
                r = lines.get(ln)
                if r is None: continue
                v = fn(r, rank)
                if v: out.append(v)
        return out


def first_frame(detail):
    """innermost /repo/src frame or verdict head of a crash/verdict description (stable part of a signature)"""
    import re
    m = re.search(r'(COLLECTIVE-MISMATCH|DEADLOCK[^:]*|SCHED-DIVERGENCE|NONDETERMINISM-NOT-OWNED[^|]*|LIBRARY-CALLED-MPI_Abort)', detail)
    if m:
        ops = re.findall(r'r\d+=([A-Z_0-9]+)\(([A-Za-z_]*)', detail)
        return m.group(1) + ':' + '+'.join(sorted(set('%s.%s' % (a, b) if b else a for a, b in ops)))
    m = re.search(r'FILE-RACE: rank \d+ (reads|writes) \[\d+,\d+\) and rank \d+ (reads|writes)', detail)
    if m: return 'FILE-RACE:' + '+'.join(sorted((m.group(1), m.group(2))))
    m = re.search(r'LIVELOCK', detail)
    if m: return 'LIVELOCK'
    m = re.search(r'/repo/src/[^ :]+:\d+', detail)
    if m: return m.group(0)
    m = re.search(r'CRASH sig=\d+', detail)
    if m: return m.group(0)
    return detail[:60]
