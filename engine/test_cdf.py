#!/usr/bin/env python3
"""Self-tests of cdf.py.  Run: python3 test_cdf.py   (exit status 0 = all passed)."""
import json
import math
import os
import random
import shutil
import subprocess
import sys
import tempfile

sys.dont_write_bytecode = True          # leave no __pycache__ behind
sys.path.insert(0, os.path.dirname(os.path.abspath(__file__)))
import cdf
from cdf import Dim, Att, Var, File, CDFError, decode, encode, encode_header, layout, logical

NCVALIDATOR = '/repo/src/utils/ncvalidator/ncvalidator'
CHECKS = 0


def check(cond, msg=''):
    global CHECKS
    CHECKS += 1
    if not cond:
        raise AssertionError(msg)


def eq(a, b, msg=''):
    check(a == b, '%s: %r != %r' % (msg, a, b))


def hx(*parts):
    """Concatenate pieces: str = hex digits (spaces ignored), bytes = literal."""
    return b''.join(bytes.fromhex(p) if isinstance(p, str) else p for p in parts)


def expect_error(kind, buf, **kw):
    try:
        decode(buf, **kw)
    except CDFError as e:
        check(e.kind == kind and str(e).startswith(kind + ': '), 'expected %s, got %s' % (kind, e))
        return e
    raise AssertionError('expected CDFError %s, decode succeeded' % kind)


# --------------------------------------------------------------- (1) hand-written files

MINIMAL = hx(b'CDF', '01', '00000000',
             '00000000 00000000',      # dim_list  ABSENT
             '00000000 00000000',      # gatt_list ABSENT
             '00000000 00000000')      # var_list  ABSENT

ONE_VAR = hx(b'CDF', '01', '00000000',
             '0000000A 00000001', '00000001', b'x', '000000', '00000003',
             '0000000C 00000001', '00000001', b't', '000000', '00000002', '00000002', b'hi', '0000',
             '0000000B 00000001', '00000001', b'v', '000000', '00000001', '00000000',
             '00000000 00000000', '00000004', '0000000C', '00000064',
             '00000001 FFFFFFFE 00000003')

CDF5 = hx(b'CDF', '05', '0000000000000002',
          '0000000A 0000000000000002',
          '0000000000000004', b'time', '0000000000000000',
          '0000000000000002', b'ab', '0000', '0000000000000005',
          '00000000 0000000000000000',
          '0000000B 0000000000000001',
          '0000000000000001', b'q', '000000',
          '0000000000000002', '0000000000000000', '0000000000000001',
          '0000000C 0000000000000001', '0000000000000001', b'u', '000000',
          '0000000B', '0000000000000001', 'FFFFFFFFFFFFFFFF',
          '00000008', '000000000000000C', '00000000000000BC',
          '0001 0002 0003 0004 0005', 'FFFF 0006 0007 0008 0009')   # packed: no record padding

TWO_REC = hx(b'CDF', '02', '00000002',
             '0000000A 00000002', '00000001', b't', '000000', '00000000',
             '00000001', b'n', '000000', '00000003',
             '00000000 00000000',
             '0000000B 00000002',
             '00000001', b'a', '000000', '00000002', '00000000 00000001', '00000000 00000000',
             '00000003', '00000008', '000000000000008C',
             '00000001', b'b', '000000', '00000001', '00000000', '00000000 00000000',
             '00000001', '00000004', '0000000000000094',
             '0001 0002 0003 0000', '81 000000',       # record 0: a (padded), b (padded)
             'FFFF 0004 0005 0000', '7F 000000')       # record 1

ONE_REC = hx(b'CDF', '02', '00000003',
             '0000000A 00000002', '00000001', b't', '000000', '00000000',
             '00000001', b'n', '000000', '00000003',
             '00000000 00000000',
             '0000000B 00000001',
             '00000001', b'a', '000000', '00000002', '00000000 00000001', '00000000 00000000',
             '00000003', '00000008', '0000000000000064',
             '0001 0002 0003', '0004 0005 0006', '8000 7FFF FFFF')  # 6-byte records, packed


def test_handwritten():
    eq(len(MINIMAL), 32)
    f = decode(MINIMAL)
    eq((f.version, f.numrecs, f.numrecs_raw, f.dims, f.gatts, f.vars), (1, 0, 0, [], [], []))
    eq((f.hdr_len, f.recsize, f.data), (32, 0, {}))
    eq(f.absent, {'dims': True, 'gatts': True, 'vars': True})
    eq(encode(f), MINIMAL)
    eq(encode(File(1)), MINIMAL)

    f = decode(ONE_VAR)
    eq((f.version, f.numrecs, f.hdr_len, len(ONE_VAR)), (1, 0, 100, 112))
    eq([(d.name, d.raw_name, d.size) for d in f.dims], [('x', b'x', 3)])
    eq([(a.name, a.xtype, a.values) for a in f.gatts], [('t', cdf.NC_CHAR, b'hi')])
    v = f.vars[0]
    eq((v.name, v.xtype, v.dimids, v.atts, v.vsize, v.begin), ('v', cdf.NC_INT, [0], [], 12, 100))
    eq((v.shape, v.is_record, v.nelems_per_rec_or_total, v.byte_size), ([3], False, 3, 12))
    eq(f.data, {0: [1, -2, 3]})
    eq(f.absent, {'dims': False, 'gatts': False, 'vars': False, ('vatts', 0): True})
    eq(cdf.var_element_offset(f, 0, 2), 108)
    eq(encode(f), ONE_VAR)
    eq(decode(ONE_VAR[:106]).data, {0: [1, None, None]}, 'short file')
    eq(decode(ONE_VAR, with_data=False).data, {})
    eq(logical(f), {'version': 1, 'numrecs': 0, 'dims': [['x', 3]], 'gatts': [['t', 2, [104, 105]]],
                    'vars': [{'name': 'v', 'xtype': 4, 'dimids': [0], 'atts': [], 'data': [1, -2, 3]}]})

    f = decode(CDF5)
    eq((f.version, f.numrecs, f.hdr_len, f.recsize), (5, 2, 188, 10))
    eq([(d.name, d.size) for d in f.dims], [('time', 0), ('ab', 5)])
    v = f.vars[0]
    eq((v.name, v.xtype, v.dimids, v.vsize, v.begin), ('q', cdf.NC_USHORT, [0, 1], 12, 188))
    eq((v.shape, v.is_record, v.nelems_per_rec_or_total, v.byte_size), ([0, 5], True, 5, 10))
    eq([(a.name, a.xtype, a.values) for a in v.atts], [('u', cdf.NC_UINT64, [2 ** 64 - 1])])
    eq(f.data, {0: [1, 2, 3, 4, 5, 65535, 6, 7, 8, 9]})
    eq(f.absent, {'dims': False, 'gatts': True, 'vars': False, ('vatts', 0): False})
    eq(encode_header(f), CDF5[:188])
    eq(encode(f), CDF5)

    f = decode(TWO_REC)
    eq((f.version, f.numrecs, f.hdr_len, f.recsize, len(TWO_REC)), (2, 2, 140, 12, 164))
    eq([(v.begin, v.vsize, v.byte_size, v.is_record) for v in f.vars], [(140, 8, 6, True), (148, 4, 1, True)])
    eq(f.data, {0: [1, 2, 3, -1, 4, 5], 1: [-127, 127]})
    eq(cdf.var_element_offset(f, 0, 4), 140 + 12 + 2)
    eq(cdf.var_element_offset(f, 1, 1), 148 + 12)
    eq(encode(f), TWO_REC)

    f = decode(ONE_REC)
    eq((f.numrecs, f.hdr_len, f.recsize, len(ONE_REC)), (3, 100, 6, 118))
    eq(f.data, {0: [1, 2, 3, 4, 5, 6, -32768, 32767, -1]})
    eq(cdf.var_element_offset(f, 0, 7), 100 + 12 + 2)
    eq(encode(f), ONE_REC)
    # STREAMING: same bytes with numrecs all ones resolve to 3 records from the file length
    s = decode(ONE_REC[:4] + b'\xff' * 4 + ONE_REC[8:])
    eq((s.numrecs_raw, s.numrecs, s.data), (0xFFFFFFFF, 3, f.data))
    eq(encode(s), ONE_REC[:4] + b'\xff' * 4 + ONE_REC[8:])

    eq(cdf.pack_values(cdf.NC_SHORT, [1, -2]), b'\x00\x01\xff\xfe')
    eq(cdf.pack_values(cdf.NC_DOUBLE, [1.0]), hx('3FF0000000000000'))
    eq(cdf.pack_values(cdf.NC_FLOAT, [-2.0, None]), hx('C0000000 00000000'))
    eq(cdf.unpack_values(cdf.NC_UINT, hx('FFFFFFFF 00000010')), [0xFFFFFFFF, 16])
    eq(cdf.unpack_values(cdf.NC_CHAR, b'A\xff'), [65, 255])
    eq(cdf.unpack_values(cdf.NC_INT64, hx('8000000000000000')), [-2 ** 63])


# --------------------------------------------------------------- (2) round trips

SAMPLES = {
    1: [-128, 127, 0, -1, 5], 2: [0, 65, 255, 10, 128], 3: [-32768, 32767, 0, -1, 258],
    4: [-2 ** 31, 2 ** 31 - 1, 0, -1, 16909060], 5: [0.0, -1.5, 3.0e38, float('nan'), float('-inf'), 1.1754943508222875e-38],
    6: [0.0, -1.5, 1.7e308, float('nan'), float('inf'), 5e-324, 0.1], 7: [0, 255, 128, 1],
    8: [0, 65535, 32768, 258], 9: [0, 2 ** 32 - 1, 2 ** 31, 16909060],
    10: [-2 ** 63, 2 ** 63 - 1, 0, -1, 2 ** 40 + 3], 11: [0, 2 ** 64 - 1, 2 ** 63, 72623859790382856],
}


def f32(x):
    return cdf.unpack_values(cdf.NC_FLOAT, cdf.pack_values(cdf.NC_FLOAT, [x]))[0]


def samples(xtype, n, shift=0):
    base = SAMPLES[xtype]
    vals = [base[(i + shift) % len(base)] for i in range(n)]
    return [f32(x) for x in vals] if xtype == cdf.NC_FLOAT else vals


def types_of(version):
    return range(1, 12) if version == 5 else range(1, 7)


def att(name, xtype, n):
    vals = samples(xtype, n)
    return Att(name, xtype, bytes(vals) if xtype == cdf.NC_CHAR else vals)


def full_schema(version, numrecs, rec_first=False):
    """Every legal type as attribute (empty and not), fixed variable and record variable."""
    dims = [Dim('t', 0), Dim('ab', 2), Dim('abc', 3), Dim('abcd', 1), Dim('température', 5),
            Dim('温度_x', 1)]                                 # name pads 3,2,1,0 + UTF-8
    gatts = [att('g%d' % t, t, 3) for t in types_of(version)] + [att('z%d' % t, t, 0) for t in types_of(version)]
    gatts.append(Att('title with space+-.@', cdf.NC_CHAR, b''))
    fixed, recs = [Var('scalar', cdf.NC_DOUBLE, [])], []
    for t in types_of(version):
        fixed.append(Var('f%d' % t, t, [1, 2] if t % 2 else [2], [att('a', t, 1), att('empty', t, 0)]))
        recs.append(Var('r%d' % t, t, [0, 2] if t % 2 else [0], [att('units', cdf.NC_CHAR, 5)] if t < 3 else []))
    return File(version, dims, gatts, recs + fixed if rec_first else fixed + recs, numrecs)


def fill_data(f):
    cdf.compute_shapes(f)
    return {i: samples(v.xtype, v.nelems_per_rec_or_total * (f.numrecs if v.is_record else 1), i)
            for i, v in enumerate(f.vars)}


def corpus():
    """Yields (label, File with layout done, data, encode kwargs)."""
    for version in (1, 2, 5):
        # nothing at all; empty lists as ABSENT and as tag + 0
        yield 'empty-absent-v%d' % version, File(version), {}, {}
        yield ('empty-tag0-v%d' % version,
               File(version, absent={'dims': False, 'gatts': False, 'vars': False}), {}, {})
        # only dims / only attributes
        yield 'dims-only-v%d' % version, File(version, [Dim('t', 0), Dim('x', 4)], numrecs=7), {}, {}
        yield 'gatts-only-v%d' % version, File(version, gatts=[att('a', cdf.NC_INT, 2)]), {}, {}
        # everything, with each layout freedom
        variants = [dict(), dict(first_gap=40), dict(var_gaps=[0, 4, 12, 0, 4], rec_gap=8),
                    dict(first_gap=4, rec_gap=4, vsize_mode='zero'), dict(vsize_mode='stale'),
                    dict(vsize_mode='max', var_gaps=[12])]
        for k, lay in enumerate(variants):
            for numrecs in (0, 1, 3):
                f = full_schema(version, numrecs, rec_first=(k == 2))
                if k % 2:
                    f.absent.update({('vatts', i): False for i in range(len(f.vars))})
                layout(f, **lay)
                yield ('full-v%d-lay%d-n%d' % (version, k, numrecs), f, fill_data(f),
                       dict(free_fill=0xAA if k else 0))
        # exactly one record variable of each type: records are packed without padding
        for t in types_of(version):
            f = File(version, [Dim('t', 0), Dim('n', 3)], [],
                     [Var('fix', cdf.NC_BYTE, [1]), Var('only', t, [0, 1])], numrecs=3)
            layout(f, rec_gap=4 * (t % 2))
            yield 'onerec-v%d-t%d' % (version, t), f, fill_data(f), dict(free_fill=0x55)
        # STREAMING numrecs (resolved from the file length)
        for nrec_vars in (1, 2):
            f = File(version, [Dim('t', 0), Dim('n', 3)], [],
                     [Var('r%d' % i, cdf.NC_SHORT, [0, 1]) for i in range(nrec_vars)], numrecs=2)
            layout(f)
            data = fill_data(f)
            f.numrecs_raw = cdf.streaming_value(version)
            yield 'streaming-v%d-%d' % (version, nrec_vars), f, data, {}


def layout_view(f):
    return (f.hdr_len, f.recsize, f.numrecs_raw, sorted(f.absent.items(), key=repr),
            [(v.begin, v.vsize, v.shape, v.is_record, v.nelems_per_rec_or_total, v.byte_size) for v in f.vars])


def test_roundtrip():
    files = []
    for label, f, data, kw in corpus():
        buf = encode(f, data, **kw)
        files.append((label, buf))
        g = decode(buf)                                   # strict
        f.data = data
        want = logical(f)
        for i in range(len(f.vars)):                       # missing data is written as zeros
            if want['vars'][i]['data'] is None:
                want['vars'][i]['data'] = []
        eq(json.dumps(logical(g), sort_keys=True), json.dumps(want, sort_keys=True), label)
        eq(g.hdr_len, f.hdr_len, label)
        eq([(v.begin, v.vsize) for v in g.vars], [(v.begin, v.vsize) for v in f.vars], label)
        for key, val in f.absent.items():
            eq(g.absent[key], val and not _listlen(f, key), label + ' absent ' + repr(key))
        eq(encode_header(g), buf[:g.hdr_len], label + ' header re-encode')
        eq(encode(g, **kw), buf, label + ' file re-encode')
        eq(layout_view(decode(buf, strict=False, with_data=False)), layout_view(g), label)
        check(all(v.begin % 4 == 0 for v in f.vars), label + ' alignment')
        for i, v in enumerate(g.vars):                     # var_element_offset agrees with the bytes
            n = len(g.data[i])
            for k in {0, n // 2, n - 1} if n else ():
                off = cdf.var_element_offset(g, i, k)
                got = cdf.unpack_values(v.xtype, buf[off:off + cdf.TYPE_SIZE[v.xtype]])[0]
                check(got == g.data[i][k] or (got != got and g.data[i][k] != g.data[i][k]), label + ' offset')
    check(len(files) > 80, 'corpus size %d' % len(files))

    # layout arithmetic on one explicit case
    f = File(1, [Dim('t', 0), Dim('n', 3)], [], [Var('a', cdf.NC_BYTE, [1]), Var('r', cdf.NC_SHORT, [0, 1]),
                                                  Var('b', cdf.NC_INT, [])], numrecs=1)
    layout(f, first_gap=8, var_gaps=[4, 12], rec_gap=16, vsize_mode='stale')
    h = f.hdr_len
    eq([(v.begin, v.vsize) for v in f.vars], [(h + 12, 8), (h + 12 + 4 + 12 + 4 + 16, 12), (h + 12 + 4 + 12, 8)])
    layout(f, vsize_mode='max')
    eq([(v.begin, v.vsize) for v in f.vars], [(h, 2 ** 32 - 1), (h + 8, 2 ** 32 - 1), (h + 4, 2 ** 32 - 1)])
    eq(len(encode(f, total_len=h + 100, free_fill=7)), h + 100)
    eq(encode(f, total_len=h + 100, free_fill=7)[-1], 7)
    eq(decode(encode(f, {1: [1, 2, 3]}, total_len=h + 10)).data, {0: [0, 0, 0], 1: [1, None, None], 2: [0]})
    return files


def _listlen(f, key):
    if isinstance(key, tuple):
        return len(f.vars[key[1]].atts)
    return len({'dims': f.dims, 'gatts': f.gatts, 'vars': f.vars}[key])


# --------------------------------------------------------------- (3) rejections

def small_file(version=1):
    f = File(version, [Dim('t', 0), Dim('x', 3)], [att('ga', cdf.NC_SHORT, 3)],
             [Var('v', cdf.NC_INT, [1], [att('va', cdf.NC_CHAR, 2)]), Var('r', cdf.NC_BYTE, [0, 1])], numrecs=2)
    layout(f)
    return f


def test_rejections():
    def patched(buf, off, new):
        return buf[:off] + new + buf[off + len(new):]

    # non-zero padding: name padding (offsets 21..23) and attribute value padding (54..55)
    eq(ONE_VAR[21:24] + ONE_VAR[54:56], bytes(5))
    for off in (21, 23, 54, 55):
        bad = patched(ONE_VAR, off, b'\x01')
        eq(expect_error('bad-padding', bad).offset, 21 if off < 50 else 54)
        eq(logical(decode(bad, strict=False)), logical(decode(ONE_VAR)), 'lenient decode')
    f = small_file()
    expect_error('bad-padding', encode_header(f, pad_byte=0xFF) + bytes(40))
    eq(logical(decode(encode_header(f, pad_byte=0xFF) + bytes(40), strict=False)),
       logical(decode(encode_header(f) + bytes(40))))

    # tags
    expect_error('bad-tag', patched(ONE_VAR, 8, hx('0000000D')))
    expect_error('bad-tag', patched(ONE_VAR, 8, hx('0000000B')))
    expect_error('bad-tag', patched(ONE_VAR, 8, hx('00000000')))       # ZERO tag, nelems 1
    expect_error('bad-tag', patched(ONE_VAR, 28, hx('0000000A')), strict=False)
    expect_error('bad-tag', patched(MINIMAL, 24, hx('0000000C')))
    expect_error('bad-magic', b'CDG' + MINIMAL[3:])
    expect_error('bad-magic', b'\x89HDF\r\n\x1a\n' + bytes(40))
    expect_error('bad-version', b'CDF\x03' + MINIMAL[4:])
    expect_error('bad-version', b'CDF\x00' + MINIMAL[4:])

    # two unlimited dimensions / record dimension not first / dimid out of range
    f = small_file()
    f.dims.append(Dim('u', 0))
    layout(f)
    expect_error('multi-unlimited', encode(f))
    decode(encode(f), strict=False)
    f = small_file()
    f.vars[1].dimids = [1, 0]
    layout(f)
    expect_error('bad-recdim-pos', encode(f))
    f = small_file()
    buf = encode(f)
    f.vars[0].dimids = [2]
    expect_error('bad-dimid', encode_header(f) + buf[f.hdr_len:])
    expect_error('bad-dimid', encode_header(f) + buf[f.hdr_len:], strict=False)

    # types
    for version in (1, 2):
        f = small_file(version)
        f.vars[0].xtype = cdf.NC_UBYTE
        layout(f)
        expect_error('bad-type', encode(f))
        eq(decode(encode(f), strict=False).vars[0].xtype, cdf.NC_UBYTE)
        f = small_file(version)
        f.gatts[0] = att('ga', cdf.NC_UINT64, 1)
        layout(f)
        expect_error('bad-type', encode(f))
    f = small_file(5)
    f.vars[0].xtype = cdf.NC_UBYTE
    layout(f)
    decode(encode(f))
    expect_error('bad-type', patched(ONE_VAR, 88, hx('00000000')), strict=False)
    expect_error('bad-type', patched(ONE_VAR, 88, hx('0000000C')), strict=False)
    expect_error('bad-type', patched(ONE_VAR, 44, hx('FFFFFFFF')))

    # begins
    for version in (1, 2, 5):
        f = small_file(version)
        good = encode(f)
        decode(good)
        f.vars[0].begin = f.hdr_len - 4
        expect_error('bad-begin', encode_header(f) + good[f.hdr_len:])
        decode(encode_header(f) + good[f.hdr_len:], strict=False)
        f = small_file(version)
        f.vars[1].begin = f.vars[0].begin + 8                # record section inside fixed variable
        expect_error('bad-begin', encode(f))
        f = small_file(version)
        f.vars.insert(1, Var('w', cdf.NC_INT, [1]))
        layout(f)
        decode(encode(f))
        f.vars[1].begin = f.vars[0].begin + 8
        expect_error('overlap', encode(f))
        f.vars[1].begin, f.vars[0].begin = f.vars[0].begin, f.vars[1].begin
        expect_error('bad-begin', encode(f))                 # decreasing in definition order
        f = small_file(version)
        f.vars.append(Var('r2', cdf.NC_BYTE, [0, 1]))
        layout(f, var_gaps=[0, 0, 4])                        # gap inside the record
        expect_error('overlap', encode(f))

    # names
    f = small_file()
    for name in ('', '1/2', '\x01a', ' lead', 'tab\there'):
        f.dims[1].name = name
        expect_error('bad-name', encode_header(f) + bytes(64))
        decode(encode_header(f) + bytes(64), strict=False)
    f.dims[1].name, f.dims[1].raw_name = 'x', b'\xff\xfe'
    expect_error('bad-name', encode_header(f) + bytes(64))
    eq(decode(encode_header(f) + bytes(64), strict=False).dims[1].raw_name, b'\xff\xfe')
    f = small_file()
    f.dims[1].name = 't'
    expect_error('dup-name', encode_header(f) + bytes(64))

    # truncation of the header at every length, for every version, strict or not
    for version in (1, 2, 5):
        f = small_file(version)
        buf = encode(f, fill_data(f))
        for n in range(f.hdr_len):
            for strict in (True, False):
                expect_error('truncated', buf[:n], strict=strict)
        for n in range(f.hdr_len, len(buf) + 1):             # short data section: not an error
            g = decode(buf[:n])
            check(n == len(buf) or None in g.data[0] + g.data[1], 'None beyond EOF')

    # counts far larger than the file must fail cleanly before any allocation
    expect_error('truncated', patched(ONE_VAR, 12, hx('7FFFFFFF')))
    expect_error('truncated', patched(ONE_VAR, 16, hx('FFFFFFFF')))
    expect_error('truncated', patched(ONE_VAR, 48, hx('FFFFFFF0')))                # attribute nelems
    expect_error('truncated', patched(CDF5, 16, hx('7FFFFFFFFFFFFFFF')))
    expect_error('truncated', patched(CDF5, 100, hx('FFFFFFFFFFFFFFFF')))   # ndims
    expect_error('data-too-large', patched(ONE_VAR, 24, hx('7FFFFFFF')))     # dim length
    expect_error('data-too-large', patched(CDF5, 4, hx('0FFFFFFFFFFFFFFF')))  # numrecs
    eq(decode(patched(CDF5, 4, hx('0FFFFFFFFFFFFFFF')), with_data=False).numrecs, 0x0FFFFFFFFFFFFFFF)
    eq(decode(patched(ONE_VAR, 24, hx('7FFFFFFF')), with_data=False).vars[0].byte_size, 4 * (2 ** 31 - 1))


def test_fuzz(files):
    """decode() raises CDFError or returns, for arbitrary and for mutated input."""
    rng = random.Random(20261003)
    seeds = [MINIMAL, ONE_VAR, CDF5, TWO_REC, ONE_REC] + [b for _, b in files if len(b) < 3000][:40]
    interesting = [0, 1, 2, 4, 5, 0x0A, 0x0B, 0x0C, 0x7F, 0x80, 0xFF]
    outcomes = {True: 0, False: 0}
    for it in range(6000):
        if it % 10 == 0:
            buf = bytearray(rng.randbytes(rng.randrange(0, 200)))
            if it % 20 == 0:
                buf[:4] = b'CDF' + bytes([rng.choice((1, 2, 5))])
        else:
            buf = bytearray(rng.choice(seeds))
            for _ in range(rng.randrange(1, 4)):
                pos = rng.randrange(0, min(len(buf), 400))
                buf[pos] = rng.choice(interesting) if rng.random() < 0.7 else rng.randrange(256)
            if rng.random() < 0.2:
                del buf[rng.randrange(0, len(buf)):]
        for strict in (True, False):
            try:
                decode(bytes(buf), strict=strict, max_elems=1 << 16)
                outcomes[True] += 1
            except CDFError as e:
                check(e.kind != 'internal', 'safety net hit: %s' % e)
                outcomes[False] += 1
    check(outcomes[True] > 100 and outcomes[False] > 100, 'fuzz is one-sided: %r' % outcomes)


# --------------------------------------------------------------- (4) third-party reader

def test_ncvalidator(files):
    if not os.access(NCVALIDATOR, os.X_OK):
        return 0
    tmp = tempfile.mkdtemp(prefix='test_cdf_', dir='/var/tmp')
    n = 0
    try:
        for label, buf in files + [('hand-%d' % i, b) for i, b in
                                          enumerate((MINIMAL, ONE_VAR, CDF5, TWO_REC, ONE_REC))]:
            path = os.path.join(tmp, label + '.nc')
            with open(path, 'wb') as fh:
                fh.write(buf)
            p = subprocess.run([NCVALIDATOR, '-q', path], stdout=subprocess.PIPE, stderr=subprocess.STDOUT)
            check(p.returncode == 0, 'ncvalidator rejects %s (%d): %s' % (label, p.returncode, p.stdout[-300:]))
            n += 1
    finally:
        shutil.rmtree(tmp, ignore_errors=True)
    return n


def main():
    test_handwritten()
    files = test_roundtrip()
    test_rejections()
    test_fuzz(files)
    n = test_ncvalidator(files)
    print('test_cdf: OK (%d checks, %d corpus files, %d files accepted by ncvalidator)' % (CHECKS, len(files), n))


if __name__ == '__main__':
    main()
