"""History BFS with state hashing over the real implementation (DESIGN.md 3.5).

A node is a history (list of op dicts) + the reference model after it.  Expanding a node with op `o` builds ONE
case: setup + history + sweep + o + sweep (+ snapshots), runs it on a fresh file, and judges:
  * every history op returns what it returned when first explored (replay determinism, hard error otherwise),
  * rc(o) is in the model's outcome set,
  * rejected o: inquiry sweep (incl. layout numbers) and file bytes identical before/after,
  * accepted o: the sweep equals the model's predicted logical state (names, ids, order, types, values, numrecs,
    pending count, buffer accounting, mode fingerprint).
Nodes whose canonical model state was already seen are expanded for the first `reps` representatives only.
"""
import json
from .runner import Case, hexname
from .model import data as D
from .model.filemodel import FileModel, CLOSED
from . import runner


def emit_std(case, ranks, o, model):
    """model op dict -> one executor line; returns the line number"""
    k = o['op']
    nm = lambda s: hexname(s)
    if k in ('enddef', 'redef', 'begin_indep', 'end_indep', 'close', 'abort', 'sync', 'flush', 'sync_numrecs', 'sweep', 'buffer_detach'):
        return case.op(ranks, k, f=0)
    if k == '_enddef':
        return case.op(ranks, '_enddef', f=0, h_minfree=o.get('h_minfree', 0), v_align=o.get('v_align', 0), v_minfree=o.get('v_minfree', 0), r_align=o.get('r_align', 0))
    if k == 'def_dim':
        return case.op(ranks, 'def_dim', f=0, name=nm(o['name']), **({'unlim': 1} if o['len'] is None else {'len': o['len']}))
    if k == 'def_var':
        return case.op(ranks, 'def_var', f=0, name=nm(o['name']), xtype=D.XT_NAME.get(o['xtype'], o['xtype']), dims=o.get('dims') or None)
    if k == 'set_fill': return case.op(ranks, 'set_fill', f=0, mode=int(o['mode']))
    if k == 'def_var_fill': return case.op(ranks, 'def_var_fill', f=0, v=o['v'], nofill=int(o.get('nofill', 0)), xtype=(D.XT_NAME[o['xtype']] if o.get('val') is not None else None), val=o.get('val'))
    if k == 'put_att':
        xt = o['xtype']
        vals = o.get('emit_vals', o['vals'])
        vals = list(vals) if isinstance(vals, (bytes, bytearray)) else vals
        return case.op(ranks, 'put_att', f=0, v=o.get('v', -1), name=nm(o['name']), xtype=D.XT_NAME.get(xt, xt), n=len(vals), vals=vals if len(vals) else None, mem=o.get('mem'))
    if k == 'del_att': return case.op(ranks, 'del_att', f=0, v=o.get('v', -1), name=nm(o['name']))
    if k == 'rename_att': return case.op(ranks, 'rename_att', f=0, v=o.get('v', -1), name=nm(o['name']), newname=nm(o['newname']))
    if k == 'copy_att': return case.op(ranks, 'copy_att', f=0, v=o.get('v', -1), name=nm(o['name']), f2=o.get('f2', 0), v2=o.get('v2', -1))
    if k == 'rename_dim': return case.op(ranks, 'rename_dim', f=0, d=o['d'], name=nm(o['name']))
    if k == 'rename_var': return case.op(ranks, 'rename_var', f=0, v=o['v'], name=nm(o['name']))
    if k in ('put', 'get', 'ipost'):
        kw = dict(f=0, form=o.get('form', 'vara'), v=o['v'] if o.get('bad') != 'varid' else 99, coll=o.get('coll', 0), mem=o.get('mem', 'int'))
        st = list(o['start']); ct = list(o['count'])
        if o.get('bad') == 'coords': st = [s + 100 for s in st]
        if o.get('bad') == 'edge': ct = [c + 100 for c in ct]
        if o.get('bad') == 'char': kw['mem'] = 'text'
        kw['s'] = st; kw['c'] = ct
        if o.get('stride'): kw['st'] = o['stride']
        if k == 'ipost':
            kw['nb'] = 'b' if o['kind'] == 'bput' else 'i'; kw['req'] = o.get('slot', 0)
            isget = o['kind'] == 'iget'
        else: isget = k == 'get'
        if not isget: kw['vals'] = o['vals']
        if o.get('nel') is not None: kw['nel'] = o['nel']
        return case.op(ranks, 'get' if isget else 'put', **kw)
    if k == 'wait':
        if o.get('slots') is not None: return case.op(ranks, 'wait', f=0, ids=['q%d' % x for x in o['slots']], all=o.get('all', 1))
        return case.op(ranks, 'wait', f=0, kind='ALL', all=o.get('all', 1))
    if k == 'cancel':
        if o.get('slots') is not None: return case.op(ranks, 'cancel', f=0, ids=['q%d' % x for x in o['slots']])
        return case.op(ranks, 'cancel', f=0, kind='ALL')
    if k == 'fill_var_rec': return case.op(ranks, 'fill_var_rec', f=0, v=o['v'], rec=o['rec'])
    if k == 'buffer_attach': return case.op(ranks, 'buffer_attach', f=0, size=o['size'])
    raise ValueError('emit_std: ' + k)


def cmp_sweep(model, sw):
    """compare the implementation's sweep JSON with the model's logical state; returns None or text"""
    exp = model.logical()
    if sw.get('rc') != 0: return 'inq failed rc=%s' % sw.get('rc')
    for k in ('nd', 'nv', 'ng', 'unlim', 'fmt', 'nreqs', 'busage', 'bsize', 'numrecs', 'mfp', 'mfp2'):
        if k in exp and exp[k] is not None and sw.get(k) != exp[k]: return '%s: library %r, model %r' % (k, sw.get(k), exp[k])
    def cmp_atts(where, ea, ga):
        if len(ea) != len(ga): return '%s: %d attributes, model %d' % (where, len(ga), len(ea))
        for i, (e, g) in enumerate(zip(ea, ga)):
            if g.get('rc') != 0 or g.get('rc2') != 0: return '%s att %d: inq rc %s/%s' % (where, i, g.get('rc'), g.get('rc2'))
            if g['n'] != e['n']: return '%s att %d: name %s, model %s' % (where, i, bytes.fromhex(g['n']), bytes.fromhex(e['n']))
            if g['t'] != e['t'] or g['len'] != e['len']: return '%s att %s: type/len %s/%s, model %s/%s' % (where, bytes.fromhex(e['n']), g['t'], g['len'], e['t'], e['len'])
            if g['id'] != i: return '%s att %s: inq_attid=%s but inq_attname(%d) names it (lookup by name disagrees with lookup by id)' % (where, bytes.fromhex(e['n']), g['id'], i)
            gv = g.get('v')
            ev = e['v']
            if isinstance(ev, list):
                gv = [runner.parse_num(x) if isinstance(x, str) else x for x in (gv or [])]
                if D.cmp_lists(ev, gv) >= 0 or len(ev) != len(gv): return '%s att %s: values %s, model %s' % (where, bytes.fromhex(e['n']), gv, ev)
            elif gv != ev: return '%s att %s: text %s, model %s' % (where, bytes.fromhex(e['n']), gv, ev)
        return None
    for i, (e, g) in enumerate(zip(exp['dims'], sw['dims'])):
        if g['rc'] != 0 or g['n'] != e['n'] or g['len'] != e['len']: return 'dim %d: library %s/%s, model %s/%s' % (i, bytes.fromhex(g['n']), g['len'], bytes.fromhex(e['n']), e['len'])
        if g['id'] != i: return 'dim %d (%s): inq_dimid returns %s (lookup by name disagrees with lookup by id)' % (i, bytes.fromhex(e['n']), g['id'])
    r = cmp_atts('global', exp['gatts'], sw['gatts'])
    if r: return r
    for i, (e, g) in enumerate(zip(exp['vars'], sw['vars'])):
        if g['rc'] != 0 or g['n'] != e['n']: return 'var %d: name %s, model %s' % (i, bytes.fromhex(g['n']), bytes.fromhex(e['n']))
        if g['t'] != e['t'] or g['dimids'] != e['dimids']: return 'var %s: type/dimids %s/%s, model %s/%s' % (bytes.fromhex(e['n']), g['t'], g['dimids'], e['t'], e['dimids'])
        if g['id'] != i: return 'var %s: inq_varid returns %s, expected %d (lookup by name disagrees with lookup by id)' % (bytes.fromhex(e['n']), g['id'], i)
        if e.get('nofill') is not None and g.get('nofill') != e['nofill']: return 'var %s: inq_var_fill reports no_fill=%s, model %s' % (bytes.fromhex(e['n']), g.get('nofill'), e['nofill'])
        r = cmp_atts('var %s' % bytes.fromhex(e['n']), e['atts'], g['atts'])
        if r: return r
    return None


class Node:
    __slots__ = ('hist', 'rcs', 'model', 'init')
    def __init__(self, hist, rcs, model, init): self.hist = hist; self.rcs = rcs; self.model = model; self.init = init


class HistoryBFS:
    def __init__(self, ck, vx, inits, alphabet, maxdepth, reps=1, np=1, emit=emit_std, extra_judge=None, snap=True, check_nofill=False, classify=None):
        """inits: list of (name, setup_fn(case) , model)  — setup_fn emits the ops that bring a fresh file to the initial state"""
        self.ck = ck; self.vx = vx; self.inits = inits; self.alphabet = alphabet; self.maxdepth = maxdepth; self.reps = reps; self.np = np
        self.emit = emit; self.extra_judge = extra_judge; self.snap = snap; self.classify = classify
        self.seen = {}; self.states = 0; self.transitions = 0; self.traces = 0; self.maxd = 0; self.abstract = set()
        self.completed_depth = 0

    def build(self, node, o, idx):
        c = Case('%s-d%d-%d' % (self.ck.pid, len(node.hist), idx), self.np)
        node.init[1](c)
        hl = []
        for h in node.hist: hl.append(self.emit(c, '*', h, None))
        s0 = c.op('*', 'sweep', f=0)
        b0 = None
        if self.snap: c.op('*', 'barrier'); b0 = c.op(0, 'snap', path='a.nc'); c.op('*', 'barrier')
        lo = self.emit(c, '*', o, node.model)
        terminal = o['op'] in ('close', 'abort')
        s1 = None if terminal else c.op('*', 'sweep', f=0)
        b1 = None
        if self.snap: c.op('*', 'barrier'); b1 = c.op(0, 'snap', path='a.nc'); c.op('*', 'barrier')
        if terminal: c.op('*', 'ledger')
        return c, (hl, s0, b0, lo, s1, b1)

    def run(self, deadline=None):
        import time
        frontier = []
        for init in self.inits:
            n = Node([], [], init[2], init)
            self.seen[(init[0], init[2].canon())] = 1
            frontier.append(n)
        self.states = len(frontier)
        for depth in range(self.maxdepth):
            if deadline and time.time() > deadline:
                self.ck.cov['exhaustive'] = False; break
            jobs = []
            for node in frontier:
                if node.model.mode == CLOSED: continue
                for o in self.alphabet(node.model):
                    c, lines = self.build(node, o, len(jobs))
                    jobs.append((node, o, c, lines))
            if not jobs: break
            results = runner.run_cases(self.vx, [j[2] for j in jobs], batch=150)
            nxt = []
            for (node, o, c, (hl, s0, b0, lo, s1, b1)), r in zip(jobs, results):
                self.transitions += 1; self.traces += 1; self.ck.cov['evaluations'] += 1
                text = c.text()
                name = '%s after [%s]' % (desc(o), ' ; '.join(desc(h) for h in node.hist))
                if r.status != 'ok':
                    from .script import first_frame
                    self.ck.violation((r.status, o['op'], first_frame(r.detail)), text, name + ': ' + r.detail[:800]); continue
                # replay determinism of the prefix
                bad = False
                for ln, rc in zip(hl, node.rcs):
                    if r.rc(0, ln) != rc:
                        self.ck.violation(('replay_divergence', 'harness', 'prefix'), text, name + ': history op at line %d returned %s, first exploration saw %s' % (ln, r.rc(0, ln), rc)); bad = True; break
                if bad: continue
                rcs, staged = node.model.apply(o)
                same_on_all = set(r.rc(k, lo) for k in r.ranks)
                rc = r.rc(0, lo)
                self.ck.outcomes.add((o['op'], node.model.mode, rc))
                if len(same_on_all) != 1:
                    self.ck.violation(('rc_differs_across_ranks', o['op'], node.model.mode), text, name + ': rcs %s' % same_on_all); continue
                if rc not in rcs:
                    cause = self.classify(node, o, r, lo, None, rc, None) if self.classify else None
                    self.ck.violation(('rc', o['op'], cause or '%s%s' % (node.model.mode, '/ro' if node.model.rdonly else '')), text,
                                      name + ': rc=%d, documented outcome set %s (mode %s, rdonly=%s)' % (rc, sorted(rcs), node.model.mode, node.model.rdonly)); continue
                effective = rc == 0 or o['op'] in ('close', 'abort') or (rc == D.NC_ERANGE and bool(o.get('erange')))
                newm = staged if (staged is not None and effective) else node.model
                if s1 is not None:
                    sw0 = r.r(0, s0).json(); sw1 = r.r(0, s1).json()
                    if not effective:
                        if sw0 != sw1:
                            diff = [k for k in sw1 if sw0.get(k) != sw1.get(k)]
                            self.ck.violation(('effect_of_rejected_call', o['op'], ','.join(diff)), text, name + ': rc=%d but the inquiry sweep changed in %s: before %s after %s' % (rc, diff, {k: sw0.get(k) for k in diff}, {k: sw1.get(k) for k in diff})); continue
                        if self.snap and r.r(0, b0).get('hex') != r.r(0, b1).get('hex'):
                            self.ck.violation(('file_changed_by_rejected_call', o['op'], node.model.mode), text, name + ': rc=%d but the file bytes changed' % rc); continue
                    d = cmp_sweep(newm, sw1)
                    if d:
                        cause = self.classify(node, o, r, lo, sw1, rc, newm) if self.classify else None
                        self.ck.violation(('state', o['op'], cause or d.split(':')[0]), text, name + ': after rc=%d %s' % (rc, d)); continue
                    if o['op'] == 'get' and rc == 0:
                        exp = node.model.expected_get(o); got = r.r(0, lo).vals()
                        if D.cmp_lists(exp, got) >= 0:
                            self.ck.violation(('value', 'get', node.model.mode), text, name + ': got %s model %s' % (got, exp)); continue
                if self.extra_judge:
                    v = self.extra_judge(node, o, r, (hl, s0, b0, lo, s1, b1), newm, rc)
                    if v: self.ck.violation(v[0], text, name + ': ' + v[1]); continue
                key = (node.init[0], newm.canon())
                cnt = self.seen.get(key, 0)
                self.abstract.add((node.init[0],) + newm.abstract())
                if cnt < self.reps:
                    self.seen[key] = cnt + 1
                    if cnt == 0: self.states += 1
                    nxt.append(Node(node.hist + [o], node.rcs + [rc], newm, node.init))
                    self.maxd = max(self.maxd, len(node.hist) + 1)
                if len(self.ck.cov['samples']) < 3 and len(node.hist) >= 2: self.ck.sample(text[:1500])
            frontier = nxt
            self.completed_depth = depth + 1
        self.ck.cov.update(states=self.states, transitions=self.transitions, traces_validated_against_impl=self.traces,
                           max_depth=self.maxd, completed_depth=self.completed_depth, abstract_states=len(self.abstract))


def desc(o):
    return o['op'] + ('(' + ','.join('%s=%s' % (k, v) for k, v in o.items() if k not in ('op', 'vals')) + ')' if len(o) > 1 else '')


def generic_bfs(ck, vx, inits, alphabet, emit, step, maxdepth, np=1, deadline=None, batch=150, reps=1, name=None, timeout=None):
    """Reusable history BFS.  inits: [(name, model)], model needs .canon() and .clone().
    emit(case, init_name, hist, op, model) -> ctx ; step(model, op, result, ctx) -> (new_model | None, [(sig, detail)])
    The history is re-emitted by `emit` (it knows how to replay ops).  Returns dict(states, transitions, max_depth, completed_depth)."""
    import time
    seen = {}
    frontier = []
    for iname, m in inits:
        seen[(iname, m.canon())] = 1; frontier.append((iname, [], m))
    states = len(frontier); trans = 0; maxd = 0; completed = 0
    for depth in range(maxdepth):
        if deadline and time.time() > deadline:
            ck.cov['exhaustive'] = False; break
        jobs = []
        for iname, hist, m in frontier:
            for o in alphabet(m):
                c = Case('%s-np%d-d%d-%d' % (name or ck.pid, np, depth, len(jobs)), np)
                ctx = emit(c, iname, hist, o, m)
                jobs.append((iname, hist, m, o, c, ctx))
        if not jobs: break
        results = runner.run_cases(vx, [j[4] for j in jobs], batch=batch, timeout=timeout)
        nxt = []
        for (iname, hist, m, o, c, ctx), r in zip(jobs, results):
            trans += 1; ck.cov['evaluations'] += 1
            text = c.text()
            label = '%s after [%s]' % (desc(o), ' ; '.join(desc(h) for h in hist))
            if r.status != 'ok':
                from .script import first_frame
                ck.violation((r.status, o['op'], first_frame(r.detail)), text, label + ': ' + r.detail[:800]); continue
            if r.detail.startswith('FLAKE'): ck.flakes += 1
            nm, viols = step(m, o, r, ctx)
            for sig, detail in viols: ck.violation(sig, text, label + ': ' + detail)
            if viols or nm is None: continue
            key = (iname, nm.canon())
            cnt = seen.get(key, 0)
            if cnt < reps:
                seen[key] = cnt + 1
                if cnt == 0: states += 1
                nxt.append((iname, hist + [o], nm)); maxd = max(maxd, len(hist) + 1)
            if len(ck.cov['samples']) < 3 and len(hist) >= 2: ck.sample(text[:1500])
        frontier = nxt; completed = depth + 1
    return dict(states=states, transitions=trans, max_depth=maxd, completed_depth=completed)
