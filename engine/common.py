"""Shared plumbing of all checks: violations, known findings, replay artefacts, evidence."""
import os, sys, json, time

VERIF = os.path.dirname(os.path.dirname(os.path.abspath(__file__)))
# experiments against a scratch copy of the repository (bin/revert_test, bin/trymutant) write their evidence and replay files elsewhere
OUT = os.environ.get('VERIF_OUT', VERIF)


def load_known():
    p = os.path.join(VERIF, 'known_findings.json')
    try:
        with open(p) as f: d = json.load(f)
    except FileNotFoundError:
        return []
    return d.get('findings', [])


class Check:
    def __init__(self, pid, level, tier=None):
        self.pid = pid; self.level = level
        self.tier = tier or os.environ.get('VERIF_TIER', 'quick')
        if self.tier not in ('quick', 'thorough'): self.tier = 'quick'
        try: self.seed = int(os.environ.get('VERIF_SEED', '0'))
        except ValueError: self.seed = 0
        self.t0 = time.time()
        self.violations = []      # (sig tuple, case text, detail)
        self.cov = dict(evaluations=0, distinct_nontrivial=0, rule='', samples=[], exhaustive=True)
        self.assumptions = []
        self.outcomes = set()
        self.flakes = 0
        self.known = [k for k in load_known() if k.get('property') == pid and k.get('status', 'open') == 'open']
        self.deadline = None

    def sample(self, text, maxn=5):
        if len(self.cov['samples']) < maxn: self.cov['samples'].append(text)

    def violation(self, sig, case_text, detail):
        """sig: (observation, site, cause).  One record per distinct (sig) keeps the first (simplest) witness."""
        sig = tuple(str(s) for s in sig)
        for v in self.violations:
            if v[0] == sig: v[3].append(1); return
        self.violations.append((sig, case_text, detail, [1]))

    def finish(self, min_eval=1, min_outcomes=2):
        nviol = 0
        out = []
        for sig, text, detail, cnt in self.violations:
            k = next((k for k in self.known if tuple(k['signature']) == sig), None)
            if k is not None:
                out.append('KNOWN-FINDING: property=%s %s [%s] (%d cases)' % (self.pid, k['description'], k['id'], len(cnt)))
                continue
            nviol += 1
            os.makedirs(os.path.join(OUT, 'replay'), exist_ok=True)
            path = os.path.join(OUT, 'replay', '%s-%d.case' % (self.pid, nviol))
            with open(path, 'w') as f:
                f.write('# property=%s signature=%s\n# %s\n' % (self.pid, json.dumps(sig), detail.replace('\n', '\n# ')))
                f.write(text)
            out.append('VIOLATION property=%s replay=%s' % (self.pid, path))
            out.append('  signature=%s cases=%d :: %s' % (json.dumps(sig), len(cnt), detail[:600].replace('\n', ' | ')))
        vac = ''
        if self.cov['evaluations'] < min_eval or len(self.outcomes) < min_outcomes:
            vac = 'VACUOUS: evaluations=%d distinct outcomes=%d (need >=%d / >=%d)' % (self.cov['evaluations'], len(self.outcomes), min_eval, min_outcomes)
        self.cov['distinct_outcomes'] = len(self.outcomes)
        self.cov['flaky_reruns'] = self.flakes
        try:
            from . import runner as _r
            self.cov['max_case_ms'] = round(_r.STATS['max_case_ms'], 1); self.cov['case_time_limit_s'] = _r.CASE_TLIMIT
        except Exception: pass
        ev = dict(property_id=self.pid, tier=self.tier, seed=self.seed, level=self.level, coverage=self.cov,
                  assumptions=self.assumptions, wall_s=round(time.time() - self.t0, 2), violations=nviol)
        os.makedirs(os.path.join(OUT, 'evidence'), exist_ok=True)
        with open(os.path.join(OUT, 'evidence', self.pid + '.json'), 'w') as f:
            json.dump(ev, f, indent=1, default=str)
        for l in out: print(l)
        print('%s %s: evaluations=%d distinct_nontrivial=%d outcomes=%d violations=%d known=%d wall=%.1fs exhaustive=%s' % (
            self.pid, self.tier, self.cov['evaluations'], self.cov['distinct_nontrivial'], len(self.outcomes), nviol,
            sum(1 for l in out if l.startswith('KNOWN')), time.time() - self.t0, self.cov.get('exhaustive')))
        if vac:
            print('BROKEN-CHECK ' + vac); sys.stdout.flush(); return 2
        sys.stdout.flush()
        return 1 if nviol else 0
