"""Schedule explorer: iterative preemption bounding over the board's scheduling points (independent file accesses).

run_prefix(prefixes) -> list of (CaseResult, user_ctx); the board logs, per step, (choice, enabled set, access of every enabled rank).
Every alternative choice at every step of every explored execution is tried as long as the number of preemptions stays within
the bound.  Accesses commute when both are reads or their byte hulls are disjoint; with reduce=True an alternative that
commutes with the step actually taken is not branched on at that step (it is still enabled later)."""


def parse_sched(end0):
    """E-line of rank 0 -> list of dict(choice, enabled=[ranks], acc={rank:(cls,lo,hi)})"""
    s = end0.get('sched', '')
    steps = []
    for part in s.split(';'):
        if not part: continue
        ch, en, accs = part.split('/', 2)
        acc = {}
        for a in accs.split(','):
            if not a: continue
            r, cls, lo, hi = a.split(':')
            acc[int(r)] = (int(cls), int(lo), int(hi))
        steps.append(dict(choice=int(ch), enabled=sorted(acc), acc=acc))
    return steps


def commute(a, b):
    (ca, la, ha), (cb, lb, hb) = a, b
    if ca == 2 or cb == 2: return False            # sync: conservative
    if ca == 0 and cb == 0: return True
    return ha <= lb or hb <= la


def preemptions(steps, upto):
    n = 0
    for i in range(1, upto):
        prev = steps[i - 1]['choice']
        if steps[i]['choice'] != prev and prev in steps[i]['enabled']: n += 1
    return n


def explore(run_batch, bound, reduce=True, max_runs=20000, judge=None):
    """run_batch(list of prefixes) -> list of (steps, verdict_or_None, ctx).  Returns stats + list of (prefix, verdict)."""
    todo = [[]]
    seen = set([()])
    runs = 0; raw = 0; failures = []; pruned = 0; maxlen = 0; capped = False
    outcomes = set()
    while todo:
        batch, todo = todo[:256], todo[256:]
        res = run_batch(batch)
        for prefix, (steps, verdict, ctx) in zip(batch, res):
            runs += 1
            if verdict: failures.append((prefix, verdict)); continue
            maxlen = max(maxlen, len(steps))
            if ctx is not None: outcomes.add(ctx)
            choices = [s['choice'] for s in steps]
            if choices[:len(prefix)] != list(prefix):
                failures.append((prefix, ('replay_divergence', 'schedule', 'prefix not reproduced: asked %s got %s' % (prefix, choices[:len(prefix)])))); continue
            for i in range(len(prefix), len(steps)):
                st = steps[i]
                pre = preemptions(steps, i + 1) if i > 0 else 0
                # preemptions among steps[0..i-1] transitions:
                pre = 0
                for j in range(1, i):
                    pj = steps[j - 1]['choice']
                    if steps[j]['choice'] != pj and pj in steps[j]['enabled']: pre += 1
                for alt in st['enabled']:
                    if alt == st['choice']: continue
                    raw += 1
                    cost = pre
                    if i > 0 and steps[i - 1]['choice'] in st['enabled'] and alt != steps[i - 1]['choice']: cost += 1
                    if cost > bound: continue
                    if reduce and commute(st['acc'][alt], st['acc'][st['choice']]): pruned += 1; continue
                    np_ = tuple(choices[:i] + [alt])
                    if np_ in seen: continue
                    seen.add(np_)
                    if runs + len(todo) >= max_runs: capped = True; continue
                    todo.append(list(np_))
    return dict(schedules=runs, alternatives_seen=raw, pruned_commuting=pruned, max_steps=maxlen, bound=bound, capped=capped, distinct_outcomes=len(outcomes)), failures
