"""Run cases on the executor: batching, parallel mpirun jobs, crash/verdict containment, log parsing."""
import os, sys, subprocess, shutil, json, time, signal, itertools
from concurrent.futures import ThreadPoolExecutor

from . import build as _build

SCRATCH = _build.SCRATCH
WORKROOT = os.environ.get('VERIF_WORK', '/dev/shm/pnetcdf-verif-work' if os.path.isdir('/dev/shm') else os.path.join(SCRATCH, 'work'))

MPI_ENV = {
    'OMPI_ALLOW_RUN_AS_ROOT': '1', 'OMPI_ALLOW_RUN_AS_ROOT_CONFIRM': '1',
    'OMPI_MCA_rmaps_base_oversubscribe': '1', 'OMPI_MCA_btl_vader_single_copy_mechanism': 'none',
    'OMPI_MCA_btl': 'self,vader', 'OMPI_MCA_mpi_yield_when_idle': '1',
    'ASAN_OPTIONS': 'detect_leaks=0:abort_on_error=0:exitcode=55:halt_on_error=1:allocator_may_return_null=1:handle_segv=0',
    'UBSAN_OPTIONS': 'print_stacktrace=1:halt_on_error=1:exitcode=56',
}
NCORES = 16


CASE_TLIMIT = int(os.environ.get('VERIF_CASE_TLIMIT', '15'))
MAX_CONFIRM_TIMEOUTS = 12
MAX_CONFIRM_OTHER = 48
STATS = {'max_case_ms': 0.0}


class Case:
    """One case = header options + op lines.  The text form is the replay artefact."""
    __slots__ = ('name', 'np', 'ops', 'opts', 'meta')

    def __init__(self, name, np=1, opts=None, meta=None):
        self.name = name; self.np = np; self.ops = []; self.opts = dict(opts or {}); self.meta = meta

    def op(self, ranks, op, **kw):
        """ranks: '*' (lock-step all), '+' (all, no barrier) or int / list of ints.  Returns 1-based line number."""
        if isinstance(ranks, int): rs = str(ranks)
        elif isinstance(ranks, (list, tuple)): rs = ','.join(map(str, ranks))
        else: rs = ranks
        parts = [rs, op]
        for k, v in kw.items():
            if v is None: continue
            if isinstance(v, (list, tuple)): v = ','.join(fmt_val(x) for x in v)
            elif isinstance(v, bool): v = int(v)
            elif isinstance(v, float): v = fmt_val(v)
            parts.append('%s=%s' % (k, v))
        self.ops.append(' '.join(parts))
        return len(self.ops)

    def raw(self, line):
        self.ops.append(line); return len(self.ops)

    def text(self, tscale=1):
        hdr = 'case %s np=%d' % (self.name, self.np)
        opts = dict(self.opts)
        # every case runs under a wall-clock alarm inside the executor: a livelock (which the board cannot see, every
        # rank keeps making matching calls) ends the case after seconds instead of the batch after minutes
        opts['tlimit'] = int(opts.get('tlimit', CASE_TLIMIT)) * tscale
        for k, v in opts.items():
            if isinstance(v, (list, tuple)): v = ','.join(map(str, v))
            hdr += ' %s=%s' % (k, v)
        return hdr + '\n' + '\n'.join(self.ops) + '\nend\n'


def fmt_val(x):
    if isinstance(x, float):
        if x != x: return 'nan'
        if x in (float('inf'), float('-inf')): return 'inf' if x > 0 else '-inf'
        return x.hex()
    return str(x)


def hexname(s):
    b = s if isinstance(s, bytes) else s.encode('utf-8')
    return 'x:' + b.hex()


class OpResult(dict):
    """kv of one result line; .rc, .op"""
    @property
    def rc(self): return int(self.get('rc', -99999))
    def ints(self, k):
        v = self.get(k, '')
        return [int(x) if x != 'N' else None for x in v.split(',')] if v != '' else []
    def vals(self):
        v = self.get('vals', '')
        return [parse_num(x) for x in v.split(',')] if v != '' else []
    def json(self):
        return json.loads(self['json'])


def parse_num(x):
    if x.startswith('nan'): return float('nan')
    if x == '-0': return -0.0
    try: return int(x)
    except ValueError: return float(x)


class CaseResult:
    __slots__ = ('case', 'status', 'detail', 'ranks', 'end', 'confirmed')
    # status: ok | crash | verdict | timeout | asan | incomplete
    def __init__(self, case):
        self.case = case; self.status = 'incomplete'; self.detail = ''; self.ranks = {}; self.end = {}; self.confirmed = False

    def r(self, rank, line):
        return self.ranks.get(rank, {}).get(line)

    def rc(self, rank, line):
        x = self.r(rank, line); return x.rc if x is not None else None


def _parse_logs(outdir, np, cases):
    """returns list of CaseResult for the cases of this job"""
    res = [CaseResult(c) for c in cases]
    began = [set() for _ in cases]; ended = [set() for _ in cases]
    notes = {}
    for rank in range(np):
        p = os.path.join(outdir, 'r%d.log' % rank)
        try: f = open(p, errors='replace')
        except OSError: continue
        for ln in f:
            ln = ln.rstrip('\n')
            if not ln: continue
            t = ln.split(' ')
            try:
                if t[0] == 'R':
                    ci = int(t[1]); line = int(t[2])
                    d = OpResult(); d['op'] = t[3]
                    for kv in t[4:]:
                        i = kv.find('=')
                        if i > 0: d[kv[:i]] = kv[i + 1:]
                    res[ci].ranks.setdefault(rank, {})[line] = d
                elif t[0] == 'B': began[int(t[1])].add(rank)
                elif t[0] == 'E':
                    ci = int(t[1]); ended[ci].add(rank)
                    d = {}
                    for kv in t[2:]:
                        i = kv.find('=')
                        if i > 0: d[kv[:i]] = kv[i + 1:]
                    res[ci].end[rank] = d
                    try: STATS['max_case_ms'] = max(STATS['max_case_ms'], float(d.get('ms', 0)))
                    except ValueError: pass
                elif t[0] == 'X':
                    notes.setdefault(int(t[1]), []).append('rank%d line%s %s' % (rank, t[2], ' '.join(t[3:])))
            except (ValueError, IndexError):
                continue
        f.close()
    for i, r in enumerate(res):
        if len(ended[i]) == r.case.np: r.status = 'ok'
        elif began[i]: r.status = 'died'
        else: r.status = 'notrun'
        if i in notes: r.detail = ' | '.join(notes[i])
    return res


_job_counter = itertools.count()


def _run_job(vx, cases, np, timeout, keep=False, env_extra=None, tscale=1):
    """run one mpirun; returns (list of CaseResult, exit status string)"""
    jid = next(_job_counter)
    base = os.path.join(WORKROOT, '%d' % os.getpid(), 'j%d' % jid)
    outdir = os.path.join(base, 'out'); work = os.path.join(base, 'work')
    os.makedirs(outdir); os.makedirs(work)
    job = os.path.join(base, 'job.txt')
    with open(job, 'w') as f:
        for c in cases: f.write(c.text(tscale) if tscale != 1 else c.text())
    env = dict(os.environ); env.update(MPI_ENV)
    env['TMPDIR'] = base
    if env_extra: env.update(env_extra)
    # header option mpiio=<component>: the job runs on that MPI-IO implementation of Open MPI (e.g. romio321 instead of the default OMPIO);
    # it is part of the case text, so a replay selects it again
    for c in cases:
        if c.opts.get('mpiio'): env['OMPI_MCA_io'] = str(c.opts['mpiio'])
    cmd = ['mpirun', '-np', str(np), '--bind-to', 'none', vx, job, outdir, work]
    t0 = time.time()
    p = subprocess.Popen(cmd, stdout=subprocess.PIPE, stderr=subprocess.STDOUT, env=env, start_new_session=True)
    try:
        out, _ = p.communicate(timeout=timeout)
        status = 'exit%d' % p.returncode
    except subprocess.TimeoutExpired:
        try: os.killpg(p.pid, signal.SIGKILL)
        except ProcessLookupError: pass
        out, _ = p.communicate()
        status = 'timeout'
    out = out.decode(errors='replace')
    res = _parse_logs(outdir, np, cases)
    if not keep: shutil.rmtree(base, ignore_errors=True)
    return res, status, out, time.time() - t0


def _classify(r, status, out):
    """the case that was in progress when the job died"""
    d = r.detail
    if 'VERDICT' in d: r.status = 'verdict'
    elif 'CASE-TIME-LIMIT' in d: r.status = 'timeout'
    elif 'CRASH' in d: r.status = 'crash'
    elif status == 'timeout': r.status = 'timeout'
    elif 'AddressSanitizer' in out or 'runtime error:' in out or status in ('exit55', 'exit56'): r.status = 'asan'
    else: r.status = 'crash'
    if r.status in ('asan', 'crash') or not d:
        tail = out[-3000:] if r.status != 'asan' else out[:6000]
        r.detail = (d + ' || ' + status + ' || ' + tail).strip()


def run_batch(vx, cases, np, timeout=120, env_extra=None, tscale=1):
    """Runs the cases (all with the same np) in one or more mpirun jobs; a job that dies is restarted after the case that killed it."""
    done = []
    todo = list(cases)
    while todo:
        res, status, out, wall = _run_job(vx, todo, np, timeout, env_extra=env_extra, tscale=tscale)
        k = 0
        while k < len(res) and res[k].status == 'ok': k += 1
        done.extend(res[:k])
        if k == len(res): break
        bad = res[k]
        if bad.status == 'notrun' and k == 0:
            san = 'AddressSanitizer' in out or 'runtime error:' in out or status in ('exit55', 'exit56')
            # a sanitizer report is read from its head (error kind and frames), anything else from its tail
            bad.status = 'asan' if san else 'crash'; bad.detail = 'job did not start: ' + status + ' ' + (out[:6000] if san else out[-2000:])
            done.append(bad); todo = todo[k + 1:]; continue
        if bad.status == 'notrun':
            # job died between cases (should not happen); blame nothing, rerun the rest
            todo = todo[k:]
            continue
        _classify(bad, status, out)
        done.append(bad)
        todo = todo[k + 1:]
    return done


def run_cases(vx, cases, batch=200, timeout=None, jobs=None, env_extra=None, confirm=True, progress=None, confirm_timeout=None):
    """Run all cases (mixed np allowed) in parallel batches.  Returns results in input order.
    A non-ok case is re-run alone (with 10x the time limit when it timed out) before it is believed."""
    groups = {}
    for i, c in enumerate(cases): groups.setdefault(c.np, []).append(i)
    tasks = []
    for np, idxs in sorted(groups.items()):
        for s in range(0, len(idxs), batch): tasks.append((np, idxs[s:s + batch]))
    results = [None] * len(cases)

    def work(t):
        np, idxs = t
        to = timeout or (60 + 0.5 * len(idxs))
        rs = run_batch(vx, [cases[i] for i in idxs], np, timeout=to, env_extra=env_extra)
        for i, r in zip(idxs, rs): results[i] = r
        if progress: progress(len(idxs))
    # keep roughly NCORES ranks alive
    by_np = {}
    for t in tasks: by_np.setdefault(t[0], []).append(t)
    for np, ts in sorted(by_np.items()):
        nj = jobs or max(1, NCORES // np)
        with ThreadPoolExecutor(max_workers=nj) as ex:
            list(ex.map(work, ts))
    if confirm:
        # every non-ok case is re-run alone before it is believed; a timed-out case gets three times its time limit.
        # Re-runs go in parallel; beyond MAX_CONFIRM_TIMEOUTS hung cases the remaining ones are reported as first seen
        # (a change that hangs hundreds of cases must not turn a check of minutes into one of hours).
        bad = [i for i, r in enumerate(results) if r is not None and r.status != 'ok']
        nto = 0; todo = []
        nother = 0
        for i in bad:
            if results[i].status == 'timeout':
                nto += 1
                if nto > MAX_CONFIRM_TIMEOUTS:
                    results[i].detail += ' (not re-run alone: %d earlier timeouts of this run were)' % MAX_CONFIRM_TIMEOUTS; continue
            else:
                nother += 1
                if nother > MAX_CONFIRM_OTHER:
                    results[i].detail += ' (not re-run alone: %d earlier failing cases of this run were)' % MAX_CONFIRM_OTHER; continue
            todo.append(i)

        def confirm_one(i):
            r = results[i]
            if r.status == 'timeout':
                tl = int(cases[i].opts.get('tlimit', CASE_TLIMIT)) * 3
                to = confirm_timeout or (tl + 60); ts = 3
            else:
                to = confirm_timeout or 120; ts = 1
            r2 = run_batch(vx, [cases[i]], cases[i].np, timeout=to, env_extra=env_extra, tscale=ts)[0]
            if r2.status == r.status: r.confirmed = True
            elif r2.status == 'ok':
                # not reproducible alone: keep the clean result, remember the flake
                r2.detail = 'FLAKE: first run %s (%s)' % (r.status, r.detail[:300]); results[i] = r2
            else:
                r2.confirmed = False; r2.detail += ' (first run: %s)' % r.status; results[i] = r2
        if todo:
            with ThreadPoolExecutor(max_workers=max(1, NCORES // max(cases[i].np for i in todo) // 2)) as ex:
                list(ex.map(confirm_one, todo))
    return results


def cleanup():
    shutil.rmtree(os.path.join(WORKROOT, '%d' % os.getpid()), ignore_errors=True)
