#!/usr/bin/env python3
"""Build libpnetcdf + the executor from /repo's *current working tree* into scratch.

Nothing is written under /repo.  .m4 sources are always expanded from the
working tree (same flags as the repository's Makefiles) into the scratch gen/
directory; the result only replaces the previous expansion when its content
changed, so make's mtime logic recompiles exactly what an edit touched.
"""
import os, sys, subprocess, hashlib, glob, shutil, time, fcntl

REPO = os.environ.get('VERIF_REPO', '/repo')
VERIF = os.path.dirname(os.path.dirname(os.path.abspath(__file__)))
SCRATCH = os.environ.get('VERIF_SCRATCH', '/var/tmp/pnetcdf-verif')

M4_SRCS = [
    'dispatchers/attr_getput', 'dispatchers/var_getput',
    'drivers/common/ncx', 'drivers/common/convert_swap',
    'drivers/ncmpio/ncmpio_getput', 'drivers/ncmpio/ncmpio_i_getput',
    'drivers/ncmpio/ncmpio_varn', 'drivers/ncmpio/ncmpio_i_varn',
    'drivers/ncmpio/ncmpio_attr',
]
C_SRCS = (
    ['dispatchers/' + f for f in 'lib_version file dimension variable attribute error_codes'.split()] +
    ['drivers/common/' + f for f in 'utf8proc mem_alloc dtype_decode create_imaptype error_mpi2nc check_name pack_unpack utils error_posix2nc hash_map'.split()] +
    ['drivers/ncmpio/ncmpio_' + f for f in 'driver create open enddef close sync file_misc header_get header_put dim var bput filetype wait vard fill util hash_func file_io intra_node'.split()]
)
BB_SRCS = ['drivers/ncbbio/ncbbio_' + f for f in 'attr dim driver file log log_flush log_put mem misc nonblocking sharedfile util var'.split()]

VARIANTS = {
    'plain': dict(cflags='-O1 -g', ldflags=''),
    'san': dict(cflags='-O1 -g -fsanitize=address,undefined -fno-sanitize-recover=undefined -fno-omit-frame-pointer',
                ldflags='-fsanitize=address,undefined'),
}
DEFS = '-DHAVE_CONFIG_H -DPNETCDF_VERIF -DPNC_MALLOC_TRACE -DENABLE_BURST_BUFFER=1'


def sh(cmd, **kw):
    return subprocess.run(cmd, shell=True, stdout=subprocess.PIPE, stderr=subprocess.STDOUT, text=True, **kw)


def _write_if_changed(path, data):
    try:
        with open(path, 'rb') as f:
            if f.read() == data:
                return False
    except FileNotFoundError:
        pass
    tmp = path + '.tmp%d' % os.getpid()
    with open(tmp, 'wb') as f:
        f.write(data)
    os.replace(tmp, path)
    return True


def ensure_config(bdir):
    """config.h / pnetcdf.h: from the configured tree, else configure once in scratch."""
    inc = os.path.join(REPO, 'src/include')
    if os.path.exists(os.path.join(inc, 'config.h')) and os.path.exists(os.path.join(inc, 'pnetcdf.h')):
        return inc
    cdir = os.path.join(SCRATCH, 'configured')
    cinc = os.path.join(cdir, 'src/include')
    if not os.path.exists(os.path.join(cinc, 'config.h')):
        os.makedirs(cdir, exist_ok=True)
        r = sh('cd %s && %s/configure --disable-fortran --disable-cxx >configure.out 2>&1' % (cdir, REPO))
        if r.returncode != 0:
            raise SystemExit('BUILD-ERROR: configure failed, see %s/configure.out' % cdir)
    return cinc


def build(variant='plain', quiet=True, utils=False):
    """Returns dict(lib=..., vx=..., bdir=..., utils={name:path})"""
    t0 = time.time()
    v = VARIANTS[variant]
    bdir = os.path.join(SCRATCH, 'build', variant)
    gen = os.path.join(bdir, 'gen')
    obj = os.path.join(bdir, 'obj')
    for d in (gen, obj):
        os.makedirs(d, exist_ok=True)
    lock = open(os.path.join(bdir, '.lock'), 'w')
    fcntl.flock(lock, fcntl.LOCK_EX)
    try:
        return _build_locked(variant, v, bdir, gen, obj, utils, t0)
    finally:
        fcntl.flock(lock, fcntl.LOCK_UN)
        lock.close()


def _build_locked(variant, v, bdir, gen, obj, utils, t0):
    src = os.path.join(REPO, 'src')
    cfginc = ensure_config(bdir)
    m4fl = '-DPNETCDF -DERANGE_FILL -I%s/m4' % REPO
    # 1. m4 expansion (always; cheap), written only when changed
    r = sh('m4 %s %s/drivers/include/ncx_h.m4' % (m4fl, src))
    if r.returncode != 0:
        raise SystemExit('BUILD-ERROR: m4 ncx_h.m4\n' + r.stdout[-2000:])
    _write_if_changed(os.path.join(gen, 'ncx.h'), r.stdout.encode())
    procs = []
    for m in M4_SRCS:
        p = subprocess.Popen('m4 %s -I%s %s/%s.m4' % (m4fl, os.path.join(src, os.path.dirname(m)), src, m),
                             shell=True, stdout=subprocess.PIPE, stderr=subprocess.PIPE)
        procs.append((m, p))
    for m, p in procs:
        out, err = p.communicate()
        if p.returncode != 0:
            raise SystemExit('BUILD-ERROR: m4 %s\n%s' % (m, err.decode()[-2000:]))
        _write_if_changed(os.path.join(gen, os.path.basename(m) + '.c'), out)
    # 2. Makefile
    inc = ' '.join('-I' + p for p in [
        gen, cfginc, src + '/include', src + '/drivers/include', src + '/drivers/common',
        src + '/drivers/ncmpio', src + '/drivers/ncbbio', src + '/dispatchers'])
    cflags = '%s %s -fno-strict-aliasing %s' % (v['cflags'], DEFS, inc)
    objs = []
    rules = []
    for c in C_SRCS + BB_SRCS:
        o = 'obj/' + os.path.basename(c) + '.o'
        objs.append(o)
        rules.append('%s: %s/%s.c\n\t@$(CC) $(CFLAGS) -MMD -MP -c $< -o $@\n' % (o, src, c))
    for m in M4_SRCS:
        b = os.path.basename(m)
        o = 'obj/' + b + '.o'
        objs.append(o)
        # generated file lives in gen/, but its #include "..." siblings live next to the .m4
        rules.append('%s: gen/%s.c\n\t@$(CC) $(CFLAGS) -I%s -MMD -MP -c $< -o $@\n' % (o, b, os.path.join(src, os.path.dirname(m))))
    hdir = os.path.join(VERIF, 'harness')
    hobjs = []
    for h in ('vx', 'shim', 'board'):
        o = 'obj/h_%s.o' % h
        hobjs.append(o)
        # the shim and the board are never sanitised (trusted base, raw atomics)
        hc = '$(HCFLAGS)' if h != 'vx' else '$(CFLAGS)'
        rules.append('%s: %s/%s.c\n\t@$(CC) %s -MMD -MP -c $< -o $@\n' % (o, hdir, h, hc))
    mk = []
    mk.append('CC=mpicc\nCFLAGS=%s\nHCFLAGS=-O1 -g %s %s\nLDFLAGS=%s\n' % (cflags, DEFS, inc, v['ldflags']))
    mk.append('all: libpnetcdf.a vx\n')
    mk.append('libpnetcdf.a: %s\n\t@rm -f $@; ar rcs $@ $^\n' % ' '.join(objs))
    mk.append('vx: %s libpnetcdf.a\n\t@$(CC) $(LDFLAGS) -o $@ %s libpnetcdf.a -lm\n' % (' '.join(hobjs), ' '.join(hobjs)))
    mk.extend(rules)
    util_bins = {}
    if utils:
        us = src + '/utils'
        ucf = '$(CFLAGS) -I%s/ncmpigen -I%s/ncmpidump -I%s/ncvalidator' % (us, us, us)
        U = {
            'ncvalidator': ([us + '/ncvalidator/ncvalidator.c'], False),
            'cdfdiff': ([us + '/ncmpidiff/cdfdiff.c'], False),
            'ncoffsets': ([us + '/ncoffsets/ncoffsets.c'], False),
            'ncmpidiff': ([us + '/ncmpidiff/ncmpidiff.c'], True),
            'ncmpidump': ([us + '/ncmpidump/%s.c' % f for f in ('ncmpidump', 'vardata', 'dumplib')], True),
            'ncmpigen': ([us + '/ncmpigen/%s.c' % f for f in ('main', 'load', 'escapes', 'getfill', 'init', 'genlib', 'ncmpigentab')], True),
        }
        for name, (srcs, needlib) in U.items():
            uobjs = []
            for s in srcs:
                o = 'obj/u_%s_%s.o' % (name, os.path.basename(s)[:-2])
                uobjs.append(o)
                rules.append('%s: %s\n\t@$(CC) %s -MMD -MP -c $< -o $@\n' % (o, s, ucf))
                mk.append(rules[-1])
            mk.append('util_%s: %s %s\n\t@$(CC) $(LDFLAGS) -o $@ %s %s -lm\n' % (
                name, ' '.join(uobjs), 'libpnetcdf.a' if needlib else '', ' '.join(uobjs), 'libpnetcdf.a' if needlib else ''))
            util_bins[name] = os.path.join(bdir, 'util_' + name)
        mk.append('utils: %s\n' % ' '.join('util_' + n for n in U))
    mk.append('-include obj/*.d\n')
    _write_if_changed(os.path.join(bdir, 'Makefile'), '\n'.join(mk).encode())
    r = sh('make -C %s -j16 all %s 2>&1' % (bdir, 'utils' if utils else ''))
    if r.returncode != 0:
        sys.stderr.write(r.stdout[-6000:])
        raise SystemExit('BUILD-ERROR: compile failed (variant %s)' % variant)
    return dict(lib=os.path.join(bdir, 'libpnetcdf.a'), vx=os.path.join(bdir, 'vx'), bdir=bdir,
                utils=util_bins, wall=time.time() - t0, log=r.stdout)


if __name__ == '__main__':
    var = sys.argv[1] if len(sys.argv) > 1 else 'plain'
    r = build(var, utils='--utils' in sys.argv)
    print('built', var, 'in %.1fs' % r['wall'], r['vx'])
